package ev

import (
	"bytes"
	"encoding/json"
	"fmt"
	"sort"
	"strings"
)

// JSONAlternatives is the replacement menu of JSONMutations: one value of every JSON type, the empty and the
// degenerate container shapes, boundary numbers and strings that commonly reach strconv / net parsers.
var JSONAlternatives = []string{`null`, `true`, `0`, `-1`, `1.5`, `99999999999999999999`, `""`, `"x"`, `"-1"`, `" "`, `"1/1"`, `[]`, `{}`, `[null]`, `[""]`, `{"":null}`, `{"x":{}}`}

type jsonPath []any // string (map key) or int (array index)

func jsonPaths(v any, cur jsonPath, out *[]jsonPath) {
	*out = append(*out, append(jsonPath{}, cur...))
	switch t := v.(type) {
	case map[string]any:
		keys := make([]string, 0, len(t))
		for k := range t {
			keys = append(keys, k)
		}
		sort.Strings(keys)
		for _, k := range keys {
			jsonPaths(t[k], append(cur, k), out)
		}
	case []any:
		for i := range t {
			jsonPaths(t[i], append(cur, i), out)
		}
	}
}

func jsonClone(v any) any {
	switch t := v.(type) {
	case map[string]any:
		m := make(map[string]any, len(t))
		for k, e := range t {
			m[k] = jsonClone(e)
		}
		return m
	case []any:
		a := make([]any, len(t))
		for i, e := range t {
			a[i] = jsonClone(e)
		}
		return a
	}
	return v
}

type jsonDelete struct{}

// jsonSet returns the tree with the node at p replaced (or removed when nv is jsonDelete); ok=false if p no longer exists.
func jsonSet(root any, p jsonPath, nv any) (any, bool) {
	if len(p) == 0 {
		if _, del := nv.(jsonDelete); del {
			return nil, false
		}
		return nv, true
	}
	switch t := root.(type) {
	case map[string]any:
		k, ok := p[0].(string)
		if !ok {
			return root, false
		}
		c, ok := t[k]
		if !ok {
			return root, false
		}
		if len(p) == 1 {
			if _, del := nv.(jsonDelete); del {
				delete(t, k)
				return root, true
			}
			t[k] = nv
			return root, true
		}
		n, ok := jsonSet(c, p[1:], nv)
		t[k] = n
		return root, ok
	case []any:
		i, ok := p[0].(int)
		if !ok || i >= len(t) {
			return root, false
		}
		if len(p) == 1 {
			if _, del := nv.(jsonDelete); del {
				return append(append([]any{}, t[:i]...), t[i+1:]...), true
			}
			t[i] = nv
			return root, true
		}
		n, ok := jsonSet(t[i], p[1:], nv)
		t[i] = n
		return root, ok
	}
	return root, false
}

func (p jsonPath) String() string {
	var b strings.Builder
	b.WriteString("$")
	for _, e := range p {
		fmt.Fprintf(&b, ".%v", e)
	}
	return b.String()
}

func jsonPrefix(a, b jsonPath) bool {
	if len(a) > len(b) {
		return false
	}
	for i := range a {
		if a[i] != b[i] {
			return false
		}
	}
	return true
}

// JSONMutations calls f with doc itself and with EVERY document obtained from doc by replacing or deleting at most k
// (1 or 2) nodes of its JSON tree (any depth; for k=2 the two nodes are not nested in each other) by each entry of
// JSONAlternatives. desc names the mutation. It returns the number of documents produced.
func JSONMutations(doc string, k int, f func(mutated, desc string)) int {
	dec := json.NewDecoder(bytes.NewReader([]byte(doc)))
	dec.UseNumber()
	var root any
	if err := dec.Decode(&root); err != nil {
		panic("JSONMutations: template is not JSON: " + err.Error())
	}
	var paths []jsonPath
	jsonPaths(root, nil, &paths)
	var alts []any
	for _, a := range JSONAlternatives {
		var v any
		d := json.NewDecoder(strings.NewReader(a))
		d.UseNumber()
		_ = d.Decode(&v)
		alts = append(alts, v)
	}
	alts = append(alts, jsonDelete{})
	name := func(i int) string {
		if i == len(JSONAlternatives) {
			return "<removed>"
		}
		return JSONAlternatives[i]
	}
	n := 0
	emit := func(t any, desc string) {
		b, err := json.Marshal(t)
		if err != nil {
			return
		}
		n++
		f(string(b), desc)
	}
	emit(root, "unchanged")
	for _, p := range paths {
		for ai, a := range alts {
			t, ok := jsonSet(jsonClone(root), p, jsonClone(a))
			if !ok {
				continue
			}
			d1 := p.String() + "=" + name(ai)
			emit(t, d1)
			if k < 2 {
				continue
			}
			for _, q := range paths {
				// q after p in document order and not nested; deleting an array element before q shifts indices: skip those
				if jsonPrefix(p, q) || jsonPrefix(q, p) || q.String() <= p.String() {
					continue
				}
				for bi, b := range alts {
					t2, ok := jsonSet(jsonClone(t), q, jsonClone(b))
					if !ok {
						continue
					}
					emit(t2, d1+" "+q.String()+"="+name(bi))
				}
			}
		}
	}
	return n
}
