//go:build verif

// Package ev is the recording side of every /verif harness: it counts what a harness
// explored, keeps literal samples, collects violations (deduplicated by signature) and writes
// one JSON "part" file per harness test into $VERIF_OUT. The driver (cmd/vcheck) merges parts
// into /verif/evidence/<id>.json and decides the exit status. It is injected into the terway
// module as github.com/AliyunContainerService/terway/internal/verif/ev through -overlay.
package ev

import (
	"encoding/json"
	"fmt"
	"os"
	"path/filepath"
	"runtime/debug"
	"sort"
	"strconv"
	"sync"
	"time"
)

type Violation struct {
	Sig    string `json:"sig"`    // stable class of the failure: call site + input class
	Detail string `json:"detail"` // human readable
	Replay any    `json:"replay"` // literal input / schedule / history that reproduces it
	Count  int64  `json:"count"`  // how many explored cases fell in this class
}

type Part struct {
	Property    string         `json:"property"`
	Part        string         `json:"part"`
	Tier        string         `json:"tier"`
	Evaluations int64          `json:"evaluations"`
	Distinct    int64          `json:"distinct_nontrivial"`
	States      int64          `json:"states"`
	Transitions int64          `json:"transitions"`
	Traces      int64          `json:"traces_validated_against_impl"`
	Rule        string         `json:"rule"`
	Samples     []any          `json:"samples"`
	Exhaustive  bool           `json:"exhaustive"`
	Violations  []*Violation   `json:"violations"`
	Extra       map[string]any `json:"extra,omitempty"`
	Assumptions []string       `json:"assumptions,omitempty"`
	WallS       float64        `json:"wall_s"`
	Complete    bool           `json:"complete"` // Flush was reached (the harness did not die)
}

type Rec struct {
	mu       sync.Mutex
	p        Part
	distinct map[string]struct{}
	vio      map[string]*Violation
	start    time.Time
	maxSamp  int
}

func Tier() string {
	if t := os.Getenv("VERIF_TIER"); t == "thorough" {
		return "thorough"
	}
	return "quick"
}
func Thorough() bool { return Tier() == "thorough" }

func Seed() int64 {
	n, _ := strconv.ParseInt(os.Getenv("VERIF_SEED"), 10, 64)
	return n
}

// Shard returns (index, total) for harnesses that split their space over worker processes.
func Shard() (int, int) {
	i, _ := strconv.Atoi(os.Getenv("VERIF_SHARD"))
	n, _ := strconv.Atoi(os.Getenv("VERIF_SHARDS"))
	if n <= 0 {
		return 0, 1
	}
	return i, n
}

// Deadline is the internal budget a harness may use; a harness that reaches it stops with
// Exhaustive=false and still exits 0.
func Deadline(quick, thorough time.Duration) time.Time {
	d := quick
	if Thorough() {
		d = thorough
	}
	if s := os.Getenv("VERIF_BUDGET_S"); s != "" {
		if n, err := strconv.Atoi(s); err == nil {
			d = time.Duration(n) * time.Second
		}
	}
	return time.Now().Add(d)
}

func New(property, part string) *Rec {
	r := &Rec{distinct: map[string]struct{}{}, vio: map[string]*Violation{}, start: time.Now(), maxSamp: 8}
	r.p.Property, r.p.Part, r.p.Tier = property, part, Tier()
	r.p.Exhaustive = true
	r.p.Extra = map[string]any{}
	return r
}

func (r *Rec) Rule(s string)       { r.p.Rule = s }
func (r *Rec) Assume(s string)     { r.p.Assumptions = append(r.p.Assumptions, s) }
func (r *Rec) NotExhaustive()      { r.mu.Lock(); r.p.Exhaustive = false; r.mu.Unlock() }
func (r *Rec) Set(k string, v any) { r.mu.Lock(); r.p.Extra[k] = v; r.mu.Unlock() }
func (r *Rec) Add(k string, n int64) {
	r.mu.Lock()
	c, _ := r.p.Extra[k].(int64)
	r.p.Extra[k] = c + n
	r.mu.Unlock()
}

// Eval counts one evaluated case.
func (r *Rec) Eval() { r.mu.Lock(); r.p.Evaluations++; r.mu.Unlock() }

// Case counts one evaluated case whose non-triviality class is key ("" = trivial).
// The first cases of new classes are kept as samples.
func (r *Rec) Case(key string, sample any) {
	r.mu.Lock()
	defer r.mu.Unlock()
	r.p.Evaluations++
	if key == "" {
		return
	}
	if _, ok := r.distinct[key]; !ok {
		r.distinct[key] = struct{}{}
		if len(r.p.Samples) < r.maxSamp && sample != nil {
			r.p.Samples = append(r.p.Samples, sample)
		}
	}
}

// Distinct marks a class without counting an evaluation.
func (r *Rec) Distinct(key string) {
	r.mu.Lock()
	r.distinct[key] = struct{}{}
	r.mu.Unlock()
}
func (r *Rec) Sample(s any) {
	r.mu.Lock()
	if len(r.p.Samples) < r.maxSamp {
		r.p.Samples = append(r.p.Samples, s)
	}
	r.mu.Unlock()
}
func (r *Rec) States(n int64)      { r.mu.Lock(); r.p.States += n; r.mu.Unlock() }
func (r *Rec) Transitions(n int64) { r.mu.Lock(); r.p.Transitions += n; r.mu.Unlock() }
func (r *Rec) Traces(n int64)      { r.mu.Lock(); r.p.Traces += n; r.mu.Unlock() }

func (r *Rec) Violate(sig, detail string, replay any) {
	r.mu.Lock()
	defer r.mu.Unlock()
	if v, ok := r.vio[sig]; ok {
		v.Count++
		return
	}
	r.vio[sig] = &Violation{Sig: sig, Detail: detail, Replay: replay, Count: 1}
}
func (r *Rec) NViolations() int { r.mu.Lock(); defer r.mu.Unlock(); return len(r.vio) }

// Guard runs f and turns a panic into a value; used by every "never crashes" oracle.
func Guard(f func()) (panicked bool, val any, stack string) {
	defer func() {
		if x := recover(); x != nil {
			panicked, val, stack = true, x, string(debug.Stack())
		}
	}()
	f()
	return
}

func (r *Rec) Flush() {
	r.mu.Lock()
	defer r.mu.Unlock()
	r.p.Distinct = int64(len(r.distinct))
	sigs := make([]string, 0, len(r.vio))
	for s := range r.vio {
		sigs = append(sigs, s)
	}
	sort.Strings(sigs)
	r.p.Violations = nil
	for _, s := range sigs {
		r.p.Violations = append(r.p.Violations, r.vio[s])
	}
	r.p.WallS = time.Since(r.start).Seconds()
	r.p.Complete = true
	dir := os.Getenv("VERIF_OUT")
	if dir == "" {
		b, _ := json.MarshalIndent(r.p, "", " ")
		fmt.Println(string(b))
		return
	}
	si, sn := Shard()
	name := fmt.Sprintf("%s.%s.%d-of-%d.json", r.p.Property, r.p.Part, si, sn)
	b, err := json.Marshal(r.p)
	if err != nil {
		panic(err)
	}
	if err := os.WriteFile(filepath.Join(dir, name), b, 0o644); err != nil {
		panic(err)
	}
}
