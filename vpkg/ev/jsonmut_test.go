package ev

import "testing"

func TestJSONMutations(t *testing.T) {
	seen := map[string]bool{}
	n := JSONMutations(`{"a":[1,{"b":"x"}],"c":null}`, 2, func(m, d string) { seen[m] = true })
	if n < 1000 || !seen[`{"c":null}`] || !seen[`{"a":[1,{}],"c":null}`] || !seen[`{"a":[{"b":"x"}],"c":0}`] {
		t.Fatalf("n=%d distinct=%d", n, len(seen))
	}
	t.Logf("documents=%d distinct=%d", n, len(seen))
}
