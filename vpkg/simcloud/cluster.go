//go:build verif

// cluster.go: the control-plane view of the simulated cloud — implements the client interfaces
// the terway controllers use (pkg/controller.Interface = VPC + ECS + ENI(V2) + EFLO).
//
// Contract, taken from pkg/aliyun/client: UnAssign of an unassigned address, Detach/Delete of a
// missing interface succeed; Delete of an attached interface fails (InvalidOperation.InvalidEniState);
// WaitFor* returns the interface when it has the wanted status, ErrNotFound when it is gone and
// ignoreNotExist is set, a timeout error otherwise; Describe* filters by instance, ids, type,
// status and tags. Attach/detach take effect at the call. Quotas are NOT enforced: the simulator
// records, the oracle judges. Every call is a scheduling point before its effect and before it
// returns, and may ask the explorer for a fault.
package simcloud

import (
	"context"
	"encoding/json"
	"fmt"
	"net/netip"
	"sort"
	"strings"
	"time"

	"github.com/aliyun/alibaba-cloud-sdk-go/services/ecs"
	"github.com/aliyun/alibaba-cloud-sdk-go/services/eflo"
	"github.com/aliyun/alibaba-cloud-sdk-go/services/vpc"
	"k8s.io/apimachinery/pkg/util/wait"

	vrt "github.com/AliyunContainerService/terway/internal/verif/rt"
	"github.com/AliyunContainerService/terway/pkg/aliyun/client"
	apiErr "github.com/AliyunContainerService/terway/pkg/aliyun/client/errors"
)

type CENI struct {
	ID, MAC     string
	VSwitch     string
	Zone        string
	Type        string // Primary | Secondary | Trunk | Member
	TrafficMode string // Standard | HighPerformance
	Status      string // Available | Attaching | InUse | Detaching | Deleting
	InstanceID  string
	TrunkID     string
	DeviceIndex int
	Primary     string
	V4          []string // includes the primary
	V6          []string
	Tags        map[string]string
	SGs         []string
	Created     time.Duration // virtual clock at creation
	Deleted     bool
	Foreign     bool // not created through this API in this run
}

type VSw struct {
	Zone   string
	Free   int64
	CIDR4  string
	CIDR6  string
	Broken bool
}

type CCall struct {
	Seq   int
	Op    string
	ENI   string
	N4    int
	N6    int
	IPs   []string
	Inst  string
	Fault string
	Err   bool
	Type  string
}

func (c CCall) String() string {
	s := fmt.Sprintf("%s(%s", c.Op, c.ENI)
	if c.N4 > 0 || c.N6 > 0 {
		s += fmt.Sprintf(",n=%d/%d", c.N4, c.N6)
	}
	if len(c.IPs) > 0 {
		s += "," + strings.Join(c.IPs, "+")
	}
	s += ")"
	if c.Fault != "" {
		s += "!" + c.Fault
	}
	return s
}

func (c CCall) Mutation() bool {
	switch c.Op {
	case "Describe", "DescribeVSwitch", "WaitFor", "DescribeInstanceTypes":
		return false
	}
	return true
}

type Cluster struct {
	mu       vrt.Mutex
	ENIs     map[string]*CENI
	VSW      map[string]*VSw
	Log      []CCall
	FaultsOn bool
	// FaultOps limits fault injection to these operations (nil = all)
	FaultOps map[string]bool
	Monitor  func(c *Cluster, call *CCall)
	// Armed is a one-shot fault for the next call of an operation: op -> fault kind (engine B's explicit fault events)
	Armed map[string]string
	// idem remembers the outcome of a Create that "timed out after it took effect": terway retries with the same
	// ClientToken (pkg/aliyun/client token.go), for which the cloud returns the already created interface
	idem   map[string]string
	next   int
	nextIP int
	// LimitV4 / LimitV6: addresses one interface can hold (0 = unlimited). The cloud itself refuses an assign beyond
	// it (InvalidOperation.Ipv4CountExceeded / Ipv6CountExceeded), whatever the caller believes the interface holds.
	LimitV4, LimitV6 int
}

func NewCluster() *Cluster {
	return &Cluster{ENIs: map[string]*CENI{}, Armed: map[string]string{}, idem: map[string]string{}, VSW: map[string]*VSw{
		"vsw-1": {Zone: "z1", Free: 100, CIDR4: "10.0.0.0/16", CIDR6: "fd00::/64"},
		"vsw-2": {Zone: "z1", Free: 100, CIDR4: "10.1.0.0/16", CIDR6: "fd01::/64"},
		"vsw-3": {Zone: "z2", Free: 100, CIDR4: "10.2.0.0/16", CIDR6: "fd02::/64"},
	}}
}

func (c *Cluster) ip4(vsw string) string {
	c.nextIP++
	b := byte(0)
	if len(vsw) > 4 {
		b = vsw[4] - '1'
	}
	return netip.AddrFrom4([4]byte{10, b, byte(c.nextIP >> 8), byte(c.nextIP)}).String()
}
func (c *Cluster) ip6(vsw string) string {
	c.nextIP++
	b := byte(0)
	if len(vsw) > 4 {
		b = vsw[4] - '1'
	}
	return netip.AddrFrom16([16]byte{0xfd, b, 0, 0, 0, 0, 0, 0, 0, 0, 0, 0, 0, 0, byte(c.nextIP >> 8), byte(c.nextIP)}).String()
}

func (c *Cluster) begin(call *CCall, faults []string) string {
	vrt.Yield()
	c.mu.Lock()
	call.Seq = len(c.Log)
	f := ""
	if k, ok := c.Armed[call.Op]; ok {
		for _, x := range faults {
			if x == k {
				f = k
			}
		}
		delete(c.Armed, call.Op)
	} else if c.FaultsOn && len(faults) > 0 && (c.FaultOps == nil || c.FaultOps[call.Op]) {
		if i := vrt.Choose(vrt.KFault, len(faults)+1, call.Op); i > 0 {
			f = faults[i-1]
		}
	}
	call.Fault = f
	if c.Monitor != nil {
		c.Monitor(c, call)
	}
	return f
}

func (c *Cluster) end(call *CCall, err error) {
	call.Err = err != nil
	c.Log = append(c.Log, *call)
	vrt.Observe(uint64(len(c.Log))*1000003 + uint64(len(call.Fault)))
	c.mu.Unlock()
	vrt.Yield()
}

// AddENI pre-populates an interface (harness side).
func (c *Cluster) AddENI(e *CENI) *CENI {
	c.next++
	if e.ID == "" {
		e.ID = fmt.Sprintf("eni-%d", c.next)
	}
	if e.MAC == "" {
		e.MAC = fmt.Sprintf("00:16:3e:00:00:%02x", c.next)
	}
	if e.VSwitch == "" {
		e.VSwitch = "vsw-1"
	}
	if e.Zone == "" {
		e.Zone = c.VSW[e.VSwitch].Zone
	}
	if e.Type == "" {
		e.Type = client.ENITypeSecondary
	}
	if e.TrafficMode == "" {
		e.TrafficMode = client.ENITrafficModeStandard
	}
	if e.Status == "" {
		e.Status = client.ENIStatusAvailable
	}
	if len(e.V4) == 0 {
		e.V4 = []string{c.ip4(e.VSwitch)}
	}
	e.Primary = e.V4[0]
	if e.Tags == nil {
		e.Tags = map[string]string{}
	}
	e.Created = vrt.Clock()
	c.ENIs[e.ID] = e
	return e
}

// NewAddrs4 / NewAddrs6 mint n fresh addresses on a vSwitch (harness side).
func (c *Cluster) NewAddrs4(vsw string, n int) []string {
	var out []string
	for i := 0; i < n; i++ {
		out = append(out, c.ip4(vsw))
	}
	return out
}
func (c *Cluster) NewAddrs6(vsw string, n int) []string {
	var out []string
	for i := 0; i < n; i++ {
		out = append(out, c.ip6(vsw))
	}
	return out
}

func (c *Cluster) toAPI(e *CENI) *client.NetworkInterface {
	ni := &client.NetworkInterface{
		Status: e.Status, MacAddress: e.MAC, NetworkInterfaceID: e.ID, VPCID: "vpc-1", VSwitchID: e.VSwitch, PrivateIPAddress: e.Primary,
		ZoneID: e.Zone, SecurityGroupIDs: append([]string{}, e.SGs...), Type: e.Type, InstanceID: e.InstanceID, TrunkNetworkInterfaceID: e.TrunkID,
		NetworkInterfaceTrafficMode: e.TrafficMode, DeviceIndex: e.DeviceIndex,
		CreationTime: vrt.TimeNow().Add(e.Created - vrt.Clock()).UTC().Format("2006-01-02T15:04:05Z"),
	}
	for _, ip := range e.V4 {
		ni.PrivateIPSets = append(ni.PrivateIPSets, client.IPSet{IPAddress: ip, Primary: ip == e.Primary})
	}
	for _, ip := range e.V6 {
		ni.IPv6Set = append(ni.IPv6Set, client.IPSet{IPAddress: ip})
	}
	var keys []string
	for k := range e.Tags {
		keys = append(keys, k)
	}
	sort.Strings(keys)
	for _, k := range keys {
		ni.Tags = append(ni.Tags, ecs.Tag{TagKey: k, TagValue: e.Tags[k], Key: k, Value: e.Tags[k]})
	}
	return ni
}

func (c *Cluster) SortedIDs() []string {
	var ids []string
	for id := range c.ENIs {
		ids = append(ids, id)
	}
	sort.Slice(ids, func(i, j int) bool {
		if len(ids[i]) != len(ids[j]) {
			return len(ids[i]) < len(ids[j])
		}
		return ids[i] < ids[j]
	})
	return ids
}

// ---------------------------------------------------------------- VPC / EFLO / instance types

func (c *Cluster) DescribeVSwitchByID(ctx context.Context, id string) (*vpc.VSwitch, error) {
	call := &CCall{Op: "DescribeVSwitch", ENI: id}
	f := c.begin(call, []string{"error"})
	v := c.VSW[id]
	if f == "error" || v == nil || v.Broken {
		c.end(call, fmt.Errorf("x"))
		return nil, fmt.Errorf("simulated DescribeVSwitch failure for %s", id)
	}
	r := &vpc.VSwitch{VSwitchId: id, ZoneId: v.Zone, AvailableIpAddressCount: v.Free, CidrBlock: v.CIDR4, Ipv6CidrBlock: v.CIDR6}
	c.end(call, nil)
	return r, nil
}

func (c *Cluster) GetNodeInfoForPod(ctx context.Context, nodeID string) (*eflo.Content, error) {
	return nil, fmt.Errorf("simcloud: EFLO is not modelled")
}

func (c *Cluster) DescribeInstanceTypes(ctx context.Context, types []string) ([]ecs.InstanceType, error) {
	return nil, fmt.Errorf("simcloud: DescribeInstanceTypes is not modelled")
}

// ---------------------------------------------------------------- create / attach / detach / delete

func (c *Cluster) create(ctx context.Context, opts []client.CreateNetworkInterfaceOption) (*client.NetworkInterface, error) {
	o := &client.CreateNetworkInterfaceOptions{}
	for _, x := range opts {
		x.ApplyCreateNetworkInterface(o)
	}
	no := o.NetworkInterfaceOptions
	if no == nil {
		return nil, client.ErrInvalidArgs
	}
	call := &CCall{Op: "Create", N4: no.IPCount, N6: no.IPv6Count, Inst: no.InstanceID}
	switch {
	case no.Trunk:
		call.Type = client.ENITypeTrunk
	case no.ERDMA:
		call.Type = "RDMA"
	default:
		call.Type = client.ENITypeSecondary
	}
	f := c.begin(call, []string{"before", "eni-limit", "vsw-exhausted", "throttling", "after"})
	switch f {
	case "before":
		c.end(call, fmt.Errorf("x"))
		return nil, fmt.Errorf("simulated create failure")
	case "eni-limit":
		c.end(call, fmt.Errorf("x"))
		return nil, apiError(apiErr.ErrEniPerInstanceLimitExceeded)
	case "vsw-exhausted":
		c.end(call, fmt.Errorf("x"))
		return nil, apiError(apiErr.InvalidVSwitchIDIPNotEnough)
	case "throttling":
		c.end(call, fmt.Errorf("x"))
		return nil, apiError(apiErr.ErrThrottling)
	}
	sigTags, _ := json.Marshal(no.Tags)
	sig := fmt.Sprintf("%s|%v|%d|%d|%v|%v|%s|%s", no.VSwitchID, no.SecurityGroupIDs, no.IPCount, no.IPv6Count, no.Trunk, no.ERDMA, sigTags, no.InstanceID)
	if id, ok := c.idem[sig]; ok && f == "" {
		// same parameters => same client token => the cloud answers with the interface it already created
		delete(c.idem, sig)
		if e := c.ENIs[id]; e != nil && !e.Deleted {
			call.ENI = id
			call.Fault = "idempotent-replay"
			r := c.toAPI(e)
			c.end(call, nil)
			return r, nil
		}
	}
	v := c.VSW[no.VSwitchID]
	if v == nil {
		c.end(call, fmt.Errorf("x"))
		return nil, fmt.Errorf("unknown vSwitch %q", no.VSwitchID)
	}
	need := int64(max(no.IPCount, 1) + no.IPv6Count)
	if v.Free < need {
		c.end(call, fmt.Errorf("x"))
		return nil, apiError(apiErr.InvalidVSwitchIDIPNotEnough)
	}
	v.Free -= need
	e := &CENI{VSwitch: no.VSwitchID, Tags: map[string]string{}, SGs: append([]string{}, no.SecurityGroupIDs...)}
	for k, val := range no.Tags {
		e.Tags[k] = val
	}
	if no.Trunk {
		e.Type = client.ENITypeTrunk
	}
	if no.ERDMA {
		e.TrafficMode = client.ENITrafficModeRDMA
	}
	for i := 0; i < max(no.IPCount, 1); i++ {
		e.V4 = append(e.V4, c.ip4(no.VSwitchID))
	}
	for i := 0; i < no.IPv6Count; i++ {
		e.V6 = append(e.V6, c.ip6(no.VSwitchID))
	}
	c.AddENI(e)
	call.ENI = e.ID
	if f == "after" {
		c.idem[sig] = e.ID
		c.end(call, fmt.Errorf("x"))
		return nil, fmt.Errorf("simulated: request timed out after the interface was created")
	}
	r := c.toAPI(e)
	c.end(call, nil)
	return r, nil
}

func (c *Cluster) CreateNetworkInterface(ctx context.Context, opts ...client.CreateNetworkInterfaceOption) (*client.NetworkInterface, error) {
	return c.create(ctx, opts)
}
func (c *Cluster) CreateNetworkInterfaceV2(ctx context.Context, opts ...client.CreateNetworkInterfaceOption) (*client.NetworkInterface, error) {
	return c.create(ctx, opts)
}

func (c *Cluster) AttachNetworkInterface(ctx context.Context, opts ...client.AttachNetworkInterfaceOption) error {
	o := &client.AttachNetworkInterfaceOptions{}
	for _, x := range opts {
		x.ApplyTo(o)
	}
	call := &CCall{Op: "Attach"}
	if o.NetworkInterfaceID != nil {
		call.ENI = *o.NetworkInterfaceID
	}
	if o.InstanceID != nil {
		call.Inst = *o.InstanceID
	}
	f := c.begin(call, []string{"before", "after"})
	if f == "before" {
		c.end(call, fmt.Errorf("x"))
		return fmt.Errorf("simulated attach failure")
	}
	e := c.ENIs[call.ENI]
	if e == nil || e.Deleted {
		c.end(call, fmt.Errorf("x"))
		return apiError(apiErr.ErrInvalidENINotFound)
	}
	if e.Status == client.ENIStatusInUse && e.InstanceID != call.Inst {
		c.end(call, fmt.Errorf("x"))
		return apiError(apiErr.ErrInvalidENIState)
	}
	e.Status, e.InstanceID = client.ENIStatusInUse, call.Inst
	if o.TrunkNetworkInstanceID != nil && *o.TrunkNetworkInstanceID != "" {
		e.TrunkID = *o.TrunkNetworkInstanceID
		e.Type = client.ENITypeMember
		n := 0
		for _, x := range c.ENIs {
			if x.TrunkID == e.TrunkID && !x.Deleted {
				n++
			}
		}
		e.DeviceIndex = n
	}
	if f == "after" {
		c.end(call, fmt.Errorf("x"))
		return fmt.Errorf("simulated: attach timed out after it took effect")
	}
	c.end(call, nil)
	return nil
}

func (c *Cluster) DetachNetworkInterface(ctx context.Context, eniID, instanceID, trunkENIID string) error {
	call := &CCall{Op: "Detach", ENI: eniID, Inst: instanceID}
	f := c.begin(call, []string{"before", "after"})
	if f == "before" {
		c.end(call, fmt.Errorf("x"))
		return fmt.Errorf("simulated detach failure")
	}
	if e := c.ENIs[eniID]; e != nil && !e.Deleted {
		e.Status, e.InstanceID, e.TrunkID = client.ENIStatusAvailable, "", ""
		if e.Type == client.ENITypeMember {
			e.Type = client.ENITypeSecondary
		}
	}
	if f == "after" {
		c.end(call, fmt.Errorf("x"))
		return fmt.Errorf("simulated: detach timed out after it took effect")
	}
	c.end(call, nil)
	return nil
}

func (c *Cluster) del(ctx context.Context, eniID string) error {
	call := &CCall{Op: "Delete", ENI: eniID}
	f := c.begin(call, []string{"before", "after"})
	if f == "before" {
		c.end(call, fmt.Errorf("x"))
		return fmt.Errorf("simulated delete failure")
	}
	if e := c.ENIs[eniID]; e != nil && !e.Deleted {
		if e.Status != client.ENIStatusAvailable {
			c.end(call, fmt.Errorf("x"))
			return apiError(apiErr.ErrInvalidENIState)
		}
		e.Deleted = true
		if v := c.VSW[e.VSwitch]; v != nil {
			v.Free += int64(len(e.V4) + len(e.V6))
		}
	}
	if f == "after" {
		c.end(call, fmt.Errorf("x"))
		return fmt.Errorf("simulated: delete timed out after it took effect")
	}
	c.end(call, nil)
	return nil
}
func (c *Cluster) DeleteNetworkInterface(ctx context.Context, eniID string) error {
	return c.del(ctx, eniID)
}
func (c *Cluster) DeleteNetworkInterfaceV2(ctx context.Context, eniID string) error {
	return c.del(ctx, eniID)
}

func (c *Cluster) waitFor(ctx context.Context, eniID, status string, ignoreNotExist bool) (*client.NetworkInterface, error) {
	call := &CCall{Op: "WaitFor", ENI: eniID}
	f := c.begin(call, []string{"timeout"})
	if f == "timeout" {
		c.end(call, fmt.Errorf("x"))
		return nil, fmt.Errorf("error wait for eni %v to status %s: %w", eniID, status, wait.ErrWaitTimeout)
	}
	e := c.ENIs[eniID]
	if e == nil || e.Deleted {
		c.end(call, fmt.Errorf("x"))
		if ignoreNotExist {
			return nil, fmt.Errorf("error wait for eni %v to status %s, %w", eniID, status, apiErr.ErrNotFound)
		}
		return nil, fmt.Errorf("error wait for eni %v to status %s: %w", eniID, status, wait.ErrWaitTimeout)
	}
	if status != "" && e.Status != status {
		c.end(call, fmt.Errorf("x"))
		return nil, fmt.Errorf("error wait for eni %v to status %s (is %s): %w", eniID, status, e.Status, wait.ErrWaitTimeout)
	}
	r := c.toAPI(e)
	c.end(call, nil)
	return r, nil
}
func (c *Cluster) WaitForNetworkInterface(ctx context.Context, eniID string, status string, backoff wait.Backoff, ignoreNotExist bool) (*client.NetworkInterface, error) {
	return c.waitFor(ctx, eniID, status, ignoreNotExist)
}
func (c *Cluster) WaitForNetworkInterfaceV2(ctx context.Context, eniID string, status string, backoff wait.Backoff, ignoreNotExist bool) (*client.NetworkInterface, error) {
	return c.waitFor(ctx, eniID, status, ignoreNotExist)
}

// ---------------------------------------------------------------- describe

func (c *Cluster) describe(vpcID string, ids []string, instanceID, eniType, status string, tags map[string]string) ([]*client.NetworkInterface, error) {
	call := &CCall{Op: "Describe", Inst: instanceID, IPs: ids}
	f := c.begin(call, []string{"error"})
	if f == "error" {
		c.end(call, fmt.Errorf("x"))
		return nil, fmt.Errorf("simulated describe failure")
	}
	var out []*client.NetworkInterface
	want := map[string]bool{}
	for _, id := range ids {
		want[id] = true
	}
	for _, id := range c.SortedIDs() {
		e := c.ENIs[id]
		if e.Deleted || (len(ids) > 0 && !want[id]) || (instanceID != "" && e.InstanceID != instanceID) || (eniType != "" && e.Type != eniType) || (status != "" && e.Status != status) {
			continue
		}
		ok := true
		for k, v := range tags {
			if e.Tags[k] != v {
				ok = false
			}
		}
		if ok {
			out = append(out, c.toAPI(e))
		}
	}
	c.end(call, nil)
	return out, nil
}

func (c *Cluster) DescribeNetworkInterface(ctx context.Context, vpcID string, eniID []string, instanceID string, instanceType string, status string, tags map[string]string) ([]*client.NetworkInterface, error) {
	return c.describe(vpcID, eniID, instanceID, instanceType, status, tags)
}

func (c *Cluster) DescribeNetworkInterfaceV2(ctx context.Context, opts ...client.DescribeNetworkInterfaceOption) ([]*client.NetworkInterface, error) {
	o := &client.DescribeNetworkInterfaceOptions{}
	for _, x := range opts {
		x.ApplyTo(o)
	}
	var ids []string
	var inst, typ, st, vpcID string
	var tags map[string]string
	if o.NetworkInterfaceIDs != nil {
		ids = *o.NetworkInterfaceIDs
	}
	if o.InstanceID != nil {
		inst = *o.InstanceID
	}
	if o.InstanceType != nil {
		typ = *o.InstanceType
	}
	if o.Status != nil {
		st = *o.Status
	}
	if o.VPCID != nil {
		vpcID = *o.VPCID
	}
	if o.Tags != nil {
		tags = *o.Tags
	}
	return c.describe(vpcID, ids, inst, typ, st, tags)
}

// ---------------------------------------------------------------- addresses

func (c *Cluster) assign(op, eniID string, n int, v6 bool) ([]string, error) {
	call := &CCall{Op: op, ENI: eniID}
	if v6 {
		call.N6 = n
	} else {
		call.N4 = n
	}
	f := c.begin(call, []string{"before", "quota", "vsw-exhausted", "throttling", "after"})
	switch f {
	case "before":
		c.end(call, fmt.Errorf("x"))
		return nil, fmt.Errorf("simulated assign failure")
	case "quota":
		c.end(call, fmt.Errorf("x"))
		return nil, apiError(apiErr.QuotaExceededPrivateIPAddress)
	case "vsw-exhausted":
		c.end(call, fmt.Errorf("x"))
		return nil, apiError(apiErr.InvalidVSwitchIDIPNotEnough)
	case "throttling":
		c.end(call, fmt.Errorf("x"))
		return nil, apiError(apiErr.ErrThrottling)
	}
	e := c.ENIs[eniID]
	if e == nil || e.Deleted {
		c.end(call, fmt.Errorf("x"))
		return nil, apiError(apiErr.ErrInvalidENINotFound)
	}
	sig := fmt.Sprintf("%s|%s|%d", op, eniID, n)
	if prev, ok := c.idem[sig]; ok && f == "" {
		// same parameters as the assign whose reply was lost => same client token (pkg/aliyun/client options.go) =>
		// the cloud answers with the addresses it already assigned instead of assigning more
		delete(c.idem, sig)
		var still []string
		for _, ip := range strings.Split(prev, ",") {
			for _, have := range append(append([]string{}, e.V4...), e.V6...) {
				if have == ip {
					still = append(still, ip)
				}
			}
		}
		if len(still) == n {
			call.IPs = still
			call.Fault = "idempotent-replay"
			c.end(call, nil)
			return still, nil
		}
	}
	if lim := c.LimitV4; !v6 && lim > 0 && len(e.V4)+n > lim {
		call.Fault = "cloud-limit"
		c.end(call, fmt.Errorf("x"))
		return nil, apiError(apiErr.ErrIPv4CountExceeded)
	}
	if lim := c.LimitV6; v6 && lim > 0 && len(e.V6)+n > lim {
		call.Fault = "cloud-limit"
		c.end(call, fmt.Errorf("x"))
		return nil, apiError(apiErr.ErrIPv6CountExceeded)
	}
	v := c.VSW[e.VSwitch]
	if v != nil && v.Free < int64(n) {
		c.end(call, fmt.Errorf("x"))
		return nil, apiError(apiErr.InvalidVSwitchIDIPNotEnough)
	}
	if v != nil {
		v.Free -= int64(n)
	}
	var ips []string
	for i := 0; i < n; i++ {
		if v6 {
			ip := c.ip6(e.VSwitch)
			e.V6 = append(e.V6, ip)
			ips = append(ips, ip)
		} else {
			ip := c.ip4(e.VSwitch)
			e.V4 = append(e.V4, ip)
			ips = append(ips, ip)
		}
	}
	call.IPs = ips
	if f == "after" {
		c.idem[sig] = strings.Join(ips, ",")
		c.end(call, fmt.Errorf("x"))
		return nil, fmt.Errorf("simulated: assign timed out after it took effect")
	}
	c.end(call, nil)
	return ips, nil
}

func toAddrs(s []string) []netip.Addr {
	var out []netip.Addr
	for _, x := range s {
		out = append(out, netip.MustParseAddr(x))
	}
	return out
}
func toSets(s []string) []client.IPSet {
	var out []client.IPSet
	for _, x := range s {
		out = append(out, client.IPSet{IPAddress: x})
	}
	return out
}

func (c *Cluster) AssignPrivateIPAddress(ctx context.Context, opts ...client.AssignPrivateIPAddressOption) ([]netip.Addr, error) {
	o := &client.AssignPrivateIPAddressOptions{}
	for _, x := range opts {
		x.ApplyAssignPrivateIPAddress(o)
	}
	ips, err := c.assign("Assign4", o.NetworkInterfaceOptions.NetworkInterfaceID, o.NetworkInterfaceOptions.IPCount, false)
	return toAddrs(ips), err
}
func (c *Cluster) AssignPrivateIPAddressV2(ctx context.Context, opts ...client.AssignPrivateIPAddressOption) ([]client.IPSet, error) {
	o := &client.AssignPrivateIPAddressOptions{}
	for _, x := range opts {
		x.ApplyAssignPrivateIPAddress(o)
	}
	ips, err := c.assign("Assign4", o.NetworkInterfaceOptions.NetworkInterfaceID, o.NetworkInterfaceOptions.IPCount, false)
	return toSets(ips), err
}
func (c *Cluster) AssignIpv6Addresses(ctx context.Context, opts ...client.AssignIPv6AddressesOption) ([]netip.Addr, error) {
	o := &client.AssignIPv6AddressesOptions{}
	for _, x := range opts {
		x.ApplyAssignIPv6Addresses(o)
	}
	ips, err := c.assign("Assign6", o.NetworkInterfaceOptions.NetworkInterfaceID, o.NetworkInterfaceOptions.IPv6Count, true)
	return toAddrs(ips), err
}
func (c *Cluster) AssignIpv6AddressesV2(ctx context.Context, opts ...client.AssignIPv6AddressesOption) ([]client.IPSet, error) {
	o := &client.AssignIPv6AddressesOptions{}
	for _, x := range opts {
		x.ApplyAssignIPv6Addresses(o)
	}
	ips, err := c.assign("Assign6", o.NetworkInterfaceOptions.NetworkInterfaceID, o.NetworkInterfaceOptions.IPv6Count, true)
	return toSets(ips), err
}

func (c *Cluster) unassign(op, eniID string, ips []string, v6 bool) error {
	call := &CCall{Op: op, ENI: eniID, IPs: ips}
	f := c.begin(call, []string{"before", "after"})
	if f == "before" {
		c.end(call, fmt.Errorf("x"))
		return fmt.Errorf("simulated unassign failure")
	}
	if e := c.ENIs[eniID]; e != nil && !e.Deleted {
		rm := map[string]bool{}
		for _, ip := range ips {
			if ip != e.Primary {
				rm[ip] = true
			}
		}
		filter := func(in []string) []string {
			var out []string
			for _, ip := range in {
				if !rm[ip] {
					out = append(out, ip)
				} else if v := c.VSW[e.VSwitch]; v != nil {
					v.Free++
				}
			}
			return out
		}
		if v6 {
			e.V6 = filter(e.V6)
		} else {
			e.V4 = filter(e.V4)
		}
	}
	if f == "after" {
		c.end(call, fmt.Errorf("x"))
		return fmt.Errorf("simulated: unassign timed out after it took effect")
	}
	c.end(call, nil)
	return nil
}

func addrStrings(a []netip.Addr) []string {
	var out []string
	for _, x := range a {
		out = append(out, x.String())
	}
	return out
}
func setStrings(a []client.IPSet) []string {
	var out []string
	for _, x := range a {
		out = append(out, x.IPAddress)
	}
	return out
}

func (c *Cluster) UnAssignPrivateIPAddresses(ctx context.Context, eniID string, ips []netip.Addr) error {
	return c.unassign("UnAssign4", eniID, addrStrings(ips), false)
}
func (c *Cluster) UnAssignIpv6Addresses(ctx context.Context, eniID string, ips []netip.Addr) error {
	return c.unassign("UnAssign6", eniID, addrStrings(ips), true)
}
func (c *Cluster) UnAssignPrivateIPAddressesV2(ctx context.Context, eniID string, ips []client.IPSet) error {
	return c.unassign("UnAssign4", eniID, setStrings(ips), false)
}
func (c *Cluster) UnAssignIpv6AddressesV2(ctx context.Context, eniID string, ips []client.IPSet) error {
	return c.unassign("UnAssign6", eniID, setStrings(ips), true)
}

// ---------------------------------------------------------------- inspection helpers (harness side)

func (c *Cluster) Mutations(from int) []string {
	var out []string
	for _, call := range c.Log[from:] {
		if call.Mutation() {
			out = append(out, call.String())
		}
	}
	return out
}

func (c *Cluster) LogStrings(from int) []string {
	var out []string
	for _, call := range c.Log[from:] {
		out = append(out, call.String())
	}
	return out
}

// Canon is a canonical description of the cloud state (ids are already deterministic).
func (c *Cluster) Canon() string {
	var out []string
	for _, id := range c.SortedIDs() {
		e := c.ENIs[id]
		if e.Deleted {
			continue
		}
		out = append(out, fmt.Sprintf("%s[%s %s %s inst=%s v4=%v v6=%v]", id, e.Type, e.TrafficMode, e.Status, e.InstanceID, e.V4, e.V6))
	}
	// replies still owed to a retry with the same client token: part of the state (they change what a retry does)
	var pend []string
	for k, v := range c.idem {
		pend = append(pend, k+"=>"+v)
	}
	sort.Strings(pend)
	if len(pend) > 0 {
		out = append(out, "idem"+fmt.Sprint(pend))
	}
	return strings.Join(out, " ")
}
