//go:build verif

// Package simcloud is the simulated Alibaba Cloud seen through terway's own seams.
// node.go: the per-node factory.Factory used by the daemon's local pool (pkg/eni).
//
// Contract (taken from pkg/factory/aliyun): whatever was created/assigned is returned together with
// the error; UnAssign of an address that is not assigned and Delete of an interface that is gone
// succeed. Every call is a scheduling point before its effect and another one before it returns
// (remote calls take time), and may ask the explorer for a fault.
package simcloud

import (
	"fmt"
	"net/netip"
	"sort"
	"strings"

	vrt "github.com/AliyunContainerService/terway/internal/verif/rt"
	"github.com/AliyunContainerService/terway/types/daemon"
	sdkErr "github.com/aliyun/alibaba-cloud-sdk-go/sdk/errors"
)

type NodeENI struct {
	ID, MAC  string
	Primary  netip.Addr
	V4, V6   []netip.Addr // V4 includes the primary
	Trunk    bool
	ERdma    bool
	Attached bool
	ByDaemon bool // created through this factory (not pre-existing)
	Deleted  bool
}

type Call struct {
	Seq    int
	Op     string
	ENI    string
	Count  int
	Count6 int
	IPs    []netip.Addr
	Type   string
	Fault  string
	Err    bool
	Ret    []netip.Addr
	Clock  int64
}

func (c Call) String() string {
	s := fmt.Sprintf("%s(%s", c.Op, c.ENI)
	if c.Count > 0 || c.Count6 > 0 {
		s += fmt.Sprintf(",n=%d/%d", c.Count, c.Count6)
	}
	if len(c.IPs) > 0 {
		s += fmt.Sprintf(",%v", c.IPs)
	}
	s += ")"
	if c.Fault != "" {
		s += "!" + c.Fault
	}
	return s
}

// Node is one instance's view of the cloud.
type Node struct {
	// HideNext: addresses the NEXT metadata view omits although they are still assigned (one-shot)
	HideNext map[netip.Addr]bool
	mu       vrt.Mutex
	ENIs     map[string]*NodeENI
	nextENI  int
	nextIP   int
	Log      []Call
	// Monitor is called (under the lock, before the effect) for every call: C06's oracle.
	Monitor func(n *Node, c *Call)
	// AfterEffect is called under the lock right after a successful effect.
	AfterEffect func(n *Node, c *Call)
	FaultsOn    bool
	// SyncViews records, for every LoadNetworkInterface that returned, what it returned (C01 oracle 3).
	Loads []LoadView
}

type LoadView struct {
	MAC    string
	V4, V6 []netip.Addr
	Seq    int
}

func NewNode() *Node { return &Node{ENIs: map[string]*NodeENI{}} }

func apiError(code string) error {
	return sdkErr.NewServerError(400, fmt.Sprintf(`{"Code":%q,"Message":"simulated","RequestId":"sim"}`, code), "")
}

func (n *Node) newIP4() netip.Addr {
	n.nextIP++
	return netip.AddrFrom4([4]byte{10, 0, byte(n.nextIP >> 8), byte(n.nextIP)})
}
func (n *Node) newIP6() netip.Addr {
	n.nextIP++
	return netip.AddrFrom16([16]byte{0xfd, 0, 0, 0, 0, 0, 0, 0, 0, 0, 0, 0, 0, 0, byte(n.nextIP >> 8), byte(n.nextIP)})
}

// AddENI pre-populates an attached interface with nv4 IPv4 addresses (the first is the primary) and nv6 IPv6 ones.
func (n *Node) AddENI(nv4, nv6 int, trunk, erdma bool) *NodeENI {
	n.nextENI++
	e := &NodeENI{ID: fmt.Sprintf("eni-%d", n.nextENI), MAC: fmt.Sprintf("00:16:3e:00:00:%02x", n.nextENI), Trunk: trunk, ERdma: erdma, Attached: true}
	for i := 0; i < nv4; i++ {
		e.V4 = append(e.V4, n.newIP4())
	}
	if nv4 == 0 {
		e.V4 = append(e.V4, n.newIP4())
	}
	e.Primary = e.V4[0]
	for i := 0; i < nv6; i++ {
		e.V6 = append(e.V6, n.newIP6())
	}
	n.ENIs[e.ID] = e
	return e
}

func (e *NodeENI) Daemon() *daemon.ENI {
	d := &daemon.ENI{ID: e.ID, MAC: e.MAC, Trunk: e.Trunk, ERdma: e.ERdma, VSwitchID: "vsw-1"}
	d.PrimaryIP.SetIP(e.Primary.String())
	d.GatewayIP.SetIP("10.0.255.253")
	d.VSwitchCIDR.SetIPNet("10.0.0.0/16")
	d.GatewayIP.SetIP("fd00::fffd")
	d.VSwitchCIDR.SetIPNet("fd00::/64")
	return d
}

func (n *Node) begin(c *Call, faults []string) string {
	vrt.Yield() // the request travels
	n.mu.Lock()
	c.Seq = len(n.Log)
	c.Clock = int64(vrt.Clock())
	f := ""
	if n.FaultsOn && len(faults) > 0 {
		if i := vrt.Choose(vrt.KFault, len(faults)+1, c.Op); i > 0 {
			f = faults[i-1]
		}
	}
	c.Fault = f
	if n.Monitor != nil {
		n.Monitor(n, c)
	}
	return f
}

func (n *Node) end(c *Call, err error) {
	c.Err = err != nil
	n.Log = append(n.Log, *c)
	if err == nil && n.AfterEffect != nil {
		n.AfterEffect(n, c)
	}
	vrt.Observe(uint64(len(n.Log))*1000003 + uint64(len(c.Fault)))
	n.mu.Unlock()
	vrt.Yield() // the reply travels
}

// ---- factory.Factory

func (n *Node) CreateNetworkInterface(ipv4, ipv6 int, eniType string) (*daemon.ENI, []netip.Addr, []netip.Addr, error) {
	c := &Call{Op: "Create", Count: ipv4, Count6: ipv6, Type: eniType}
	f := n.begin(c, []string{"before", "eni-limit", "vsw-exhausted", "created-noip-err", "created-ips-err"})
	switch f {
	case "before":
		n.end(c, fmt.Errorf("x"))
		return nil, nil, nil, fmt.Errorf("simulated create failure")
	case "eni-limit":
		n.end(c, fmt.Errorf("x"))
		return nil, nil, nil, apiError("EniPerInstanceLimitExceeded")
	case "vsw-exhausted":
		n.end(c, fmt.Errorf("x"))
		return nil, nil, nil, apiError("InvalidVSwitchId.IpNotEnough")
	}
	t := strings.ToLower(eniType)
	e := n.AddENI(max(ipv4, 1), ipv6, t == "trunk", t == "erdma")
	e.ByDaemon = true
	c.ENI = e.ID
	c.Ret = append(append([]netip.Addr{}, e.V4...), e.V6...)
	d := e.Daemon()
	v4, v6 := append([]netip.Addr{}, e.V4...), append([]netip.Addr{}, e.V6...)
	switch f {
	case "created-noip-err":
		n.end(c, fmt.Errorf("x"))
		return d, nil, nil, fmt.Errorf("simulated attach failure")
	case "created-ips-err":
		n.end(c, fmt.Errorf("x"))
		return d, v4, v6, fmt.Errorf("simulated status wait failure")
	}
	n.end(c, nil)
	return d, v4, v6, nil
}

func (n *Node) assign(op, eniID string, count int, v6 bool) ([]netip.Addr, error) {
	c := &Call{Op: op, ENI: eniID, Count: count}
	faults := []string{"before", "quota", "vsw-exhausted", "all-err"}
	if count > 1 {
		faults = append(faults, "partial-err")
	}
	f := n.begin(c, faults)
	e := n.ENIs[eniID]
	switch {
	case f == "before":
		n.end(c, fmt.Errorf("x"))
		return nil, fmt.Errorf("simulated assign failure")
	case f == "quota":
		n.end(c, fmt.Errorf("x"))
		return nil, apiError("QuotaExceeded.PrivateIpAddress")
	case f == "vsw-exhausted":
		n.end(c, fmt.Errorf("x"))
		return nil, apiError("InvalidVSwitchId.IpNotEnough")
	case e == nil || e.Deleted:
		n.end(c, fmt.Errorf("x"))
		return nil, apiError("InvalidEniId.NotFound")
	}
	k := count
	if f == "partial-err" {
		k = count - 1
	}
	var ips []netip.Addr
	for i := 0; i < k; i++ {
		if v6 {
			ip := n.newIP6()
			e.V6 = append(e.V6, ip)
			ips = append(ips, ip)
		} else {
			ip := n.newIP4()
			e.V4 = append(e.V4, ip)
			ips = append(ips, ip)
		}
	}
	c.Ret = ips
	if f != "" {
		n.end(c, fmt.Errorf("x"))
		return ips, fmt.Errorf("simulated: assigned but the call reported an error")
	}
	n.end(c, nil)
	return ips, nil
}

func (n *Node) AssignNIPv4(eniID string, count int, mac string) ([]netip.Addr, error) {
	return n.assign("Assign4", eniID, count, false)
}
func (n *Node) AssignNIPv6(eniID string, count int, mac string) ([]netip.Addr, error) {
	return n.assign("Assign6", eniID, count, true)
}

func (n *Node) unassign(op, eniID string, ips []netip.Addr, v6 bool) error {
	c := &Call{Op: op, ENI: eniID, IPs: append([]netip.Addr{}, ips...)}
	f := n.begin(c, []string{"before", "after"})
	if f == "before" {
		n.end(c, fmt.Errorf("x"))
		return fmt.Errorf("simulated unassign failure")
	}
	if e := n.ENIs[eniID]; e != nil && !e.Deleted {
		rm := map[netip.Addr]bool{}
		for _, ip := range ips {
			if ip != e.Primary {
				rm[ip] = true
			}
		}
		filter := func(in []netip.Addr) []netip.Addr {
			var out []netip.Addr
			for _, ip := range in {
				if !rm[ip] {
					out = append(out, ip)
				}
			}
			return out
		}
		if v6 {
			e.V6 = filter(e.V6)
		} else {
			e.V4 = filter(e.V4)
		}
	}
	if f == "after" {
		n.end(c, fmt.Errorf("x"))
		return fmt.Errorf("simulated: unassigned but the call reported an error")
	}
	n.end(c, nil)
	return nil
}

func (n *Node) UnAssignNIPv4(eniID string, ips []netip.Addr, mac string) error {
	return n.unassign("UnAssign4", eniID, ips, false)
}
func (n *Node) UnAssignNIPv6(eniID string, ips []netip.Addr, mac string) error {
	return n.unassign("UnAssign6", eniID, ips, true)
}

func (n *Node) DeleteNetworkInterface(eniID string) error {
	c := &Call{Op: "Delete", ENI: eniID}
	f := n.begin(c, []string{"before", "after"})
	if f == "before" {
		n.end(c, fmt.Errorf("x"))
		return fmt.Errorf("simulated delete failure")
	}
	if e := n.ENIs[eniID]; e != nil {
		e.Deleted, e.Attached = true, false
	}
	if f == "after" {
		n.end(c, fmt.Errorf("x"))
		return fmt.Errorf("simulated: deleted but the call reported an error")
	}
	n.end(c, nil)
	return nil
}

func (n *Node) LoadNetworkInterface(mac string) ([]netip.Addr, []netip.Addr, error) {
	c := &Call{Op: "Load", ENI: mac}
	f := n.begin(c, []string{"error"})
	if f == "error" {
		n.end(c, fmt.Errorf("x"))
		return nil, nil, fmt.Errorf("simulated metadata failure")
	}
	for _, e := range n.ENIs {
		if e.MAC == mac && !e.Deleted {
			v4, v6 := append([]netip.Addr{}, e.V4...), append([]netip.Addr{}, e.V6...)
			if len(n.HideNext) > 0 {
				// a lagging / partial metadata answer: the address is still assigned, this one view does not list it
				keep := func(in []netip.Addr) (out []netip.Addr) {
					for _, a := range in {
						if !n.HideNext[a] {
							out = append(out, a)
						}
					}
					return
				}
				v4, v6 = keep(v4), keep(v6)
				n.HideNext = nil
			}
			n.Loads = append(n.Loads, LoadView{MAC: mac, V4: v4, V6: v6, Seq: len(n.Log)})
			n.end(c, nil)
			return v4, v6, nil
		}
	}
	n.end(c, fmt.Errorf("x"))
	return nil, nil, fmt.Errorf("mac %s not found in metadata", mac)
}

func (n *Node) GetAttachedNetworkInterface(preferTrunkID string) ([]*daemon.ENI, error) {
	c := &Call{Op: "GetAttached"}
	n.begin(c, nil)
	var out []*daemon.ENI
	for _, id := range n.SortedIDs() {
		if e := n.ENIs[id]; e.Attached && !e.Deleted {
			out = append(out, e.Daemon())
		}
	}
	n.end(c, nil)
	return out, nil
}

// ---- environment / inspection (harness side; call with the runtime's single-thread guarantee)

func (n *Node) SortedIDs() []string {
	var ids []string
	for id := range n.ENIs {
		ids = append(ids, id)
	}
	sort.Strings(ids)
	return ids
}

// RemoteRemove: somebody removes an address from the interface behind the daemon's back.
func (n *Node) RemoteRemove(ip netip.Addr) {
	vrt.Yield()
	n.mu.Lock()
	for _, e := range n.ENIs {
		filter := func(in []netip.Addr) []netip.Addr {
			var out []netip.Addr
			for _, x := range in {
				if x != ip {
					out = append(out, x)
				}
			}
			return out
		}
		e.V4, e.V6 = filter(e.V4), filter(e.V6)
	}
	n.Log = append(n.Log, Call{Op: "RemoteRemove", IPs: []netip.Addr{ip}, Seq: len(n.Log)})
	vrt.Observe(uint64(len(n.Log)) * 7919)
	n.mu.Unlock()
}

// Has reports whether ip is currently assigned to an attached, existing interface.
func (n *Node) Has(ip netip.Addr) (string, bool) {
	for _, id := range n.SortedIDs() {
		e := n.ENIs[id]
		if e.Deleted || !e.Attached {
			continue
		}
		for _, x := range e.V4 {
			if x == ip {
				return id, true
			}
		}
		for _, x := range e.V6 {
			if x == ip {
				return id, true
			}
		}
	}
	return "", false
}

func (n *Node) LogStrings() []string {
	var out []string
	for _, c := range n.Log {
		out = append(out, c.String())
	}
	return out
}

// Clone deep-copies the cloud's state (not its hooks): the "cloud at the crash point".
func (n *Node) Clone() *Node {
	c := NewNode()
	c.nextENI, c.nextIP = n.nextENI, n.nextIP
	for id, e := range n.ENIs {
		ce := *e
		ce.V4 = append([]netip.Addr{}, e.V4...)
		ce.V6 = append([]netip.Addr{}, e.V6...)
		c.ENIs[id] = &ce
	}
	return c
}
