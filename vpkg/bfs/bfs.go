//go:build verif

// Package bfs is engine B ("statespace"): explicit-state breadth-first search in which a state is
// the event history that reaches it and every transition invokes REAL handlers on a fresh world
// (replayed deterministically under the cooperative runtime). States are deduplicated by a canonical
// projection supplied by the world.
package bfs

import (
	"fmt"
	"strings"
	"time"

	vrt "github.com/AliyunContainerService/terway/internal/verif/rt"
)

// World is a freshly built system plus its environment.
type World interface {
	Apply(x *vrt.Exec, ev string) // perform one event (calls real code); report violations through x
	Enabled() []string            // events enabled in the current state (deterministic order)
	Canon() string                // canonical, property-relevant projection of the state
}

type Config struct {
	Name     string
	MaxDepth int
	MaxStates int
	Deadline time.Time
	Steps    int // rt horizon per replay
	Build    func(x *vrt.Exec) World
	Roots    [][]string // initial histories (nil = the empty history)
	// OnState is called once for every NEW state (world positioned in that state): closure checks.
	OnState func(x *vrt.Exec, w World, hist []string)
}

type Violation struct {
	Sig, Detail string
	History     []string
}

type Result struct {
	States, Transitions int64
	Depth               int
	FrontierEmptied     bool
	Violations          []Violation
	Closures            int64
	Replays             int64
	SampleHist          [][]string
	HarnessErr          string
}

type node struct {
	hist    []string
	enabled []string
}

func Run(cfg Config) *Result {
	res := &Result{}
	seen := map[string]bool{}
	sig := map[string]bool{}
	steps := cfg.Steps
	if steps == 0 {
		steps = 200000
	}
	// visit replays hist, returns canon + enabled; runs OnState when the state is new
	visit := func(hist []string) (canon string, enabled []string, ok bool) {

		r := vrt.RunOnce(cfg.Name, steps, func(x *vrt.Exec) {
			w := cfg.Build(x)
			if x.Failed() {
				return
			}
			vrt.Freeze(true)
			for i, ev := range hist {
				if i == len(hist)-1 {
					// only the last event is "this transition": earlier violations were reported when first explored
					pre := x.Failed()
					w.Apply(x, ev)
					_ = pre
				} else {
					w.Apply(&vrt.Exec{}, ev)
				}
			}
			canon = w.Canon()
			enabled = w.Enabled()
			if !seen[canon] {

				if cfg.OnState != nil {
					res.Closures++
					cfg.OnState(x, w, hist)
				}
			}
			x.Outcome(canon)
		})
		res.Replays++
		if r.HarnessErr != "" {
			res.HarnessErr = r.HarnessErr
			return "", nil, false
		}
		for _, v := range r.Violations {
			s := v.Sig
			if i := strings.Index(s, "::"); i >= 0 {
				s = s[i+2:]
			}
			if !sig[s] {
				sig[s] = true
				res.Violations = append(res.Violations, Violation{Sig: s, Detail: v.Detail, History: append([]string{}, hist...)})
			}
		}
		return canon, enabled, true
	}
	var frontier []node
	roots := cfg.Roots
	if roots == nil {
		roots = [][]string{{}}
	}
	for _, rt := range roots {
		c, en, ok := visit(rt)
		if !ok {
			return res
		}
		if !seen[c] {
			seen[c] = true
			res.States++
			frontier = append(frontier, node{append([]string{}, rt...), en})
		}
	}
	depth := 0
	for len(frontier) > 0 && depth < cfg.MaxDepth {
		var next []node
		for _, n := range frontier {
			for _, ev := range n.enabled {
				if (!cfg.Deadline.IsZero() && time.Now().After(cfg.Deadline)) || (cfg.MaxStates > 0 && int(res.States) >= cfg.MaxStates) {
					res.Depth = depth
					return res
				}
				h := append(append(make([]string, 0, len(n.hist)+1), n.hist...), ev)
				c, en, ok := visit(h)
				if !ok {
					return res
				}
				res.Transitions++
				if !seen[c] {
					seen[c] = true
					res.States++
					next = append(next, node{h, en})
					if len(res.SampleHist) < 3 && len(h) >= 3 {
						res.SampleHist = append(res.SampleHist, h)
					}
				}
			}
		}
		frontier = next
		depth++
	}
	res.Depth = depth
	res.FrontierEmptied = len(frontier) == 0
	return res
}

func (r *Result) String() string {
	return fmt.Sprintf("states=%d transitions=%d depth=%d frontierEmptied=%v closures=%d replays=%d", r.States, r.Transitions, r.Depth, r.FrontierEmptied, r.Closures, r.Replays)
}
