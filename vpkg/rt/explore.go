//go:build verif

package rt

import (
	"encoding/json"
	"fmt"
	"os"
	"sort"
	"strings"
	"time"
)

// Config bounds one exploration.
type Config struct {
	Name     string
	Budget   [nKinds]int // max deviations per kind per execution: preempt, order, fault, timer
	MaxSteps int         // horizon (scheduling steps) per execution
	Prune    bool        // happens-before fingerprint cache
	MaxExecs int64       // safety cap (0 = none); hitting it => not exhaustive
	Deadline time.Time   // internal deadline; hitting it => not exhaustive (never a failure)
	Shard    int         // this worker's index
	Shards   int         // number of workers; the DFS is split on the alternatives of the first open points
	Replay   []int       // if set: run exactly this choice sequence once, with a trace
	AllowDeadlock bool   // a deadlock is an outcome, not a violation (default: violation)
	AllowTruncated bool
	Delay bool // delay bounding: any departure from the default (canonical-order) scheduler costs one `preempt` deviation, also at blocking points
}

// Exec is handed to the body of every execution.
type Exec struct {
	s        *Sched
	outcome  string
	fails    []Failure
	Scenario string
}

type Failure struct {
	Sig    string
	Detail string
}

func (x *Exec) Outcome(o string)            { x.outcome = o }
func (x *Exec) Fail(sig, detail string)     { x.fails = append(x.fails, Failure{sig, detail}) }
func (x *Exec) Failf(sig, f string, a ...any) { x.Fail(sig, fmt.Sprintf(f, a...)) }
func (x *Exec) Failed() bool                { return len(x.fails) > 0 }

type Replay struct {
	Scenario string   `json:"scenario"`
	Budget   []int    `json:"budget"`
	MaxSteps int      `json:"max_steps"`
	Choices  []int    `json:"choices"`
	Trace    []string `json:"trace,omitempty"`
}

type Violation struct {
	Sig, Detail string
	Replay      Replay
}

type Result struct {
	Execs      int64
	Pruned     int64
	Truncated  int64
	Deadlocks  int64
	States     int64
	Steps      int64
	Outcomes   map[string]int64
	Violations []Violation
	Exhaustive bool
	MaxDepth   int
	PerBound   map[string]int64
	Sample     []Replay
	HarnessErr string
}

// Explore runs body under every schedule / choice sequence within cfg's bounds.
func Explore(cfg Config, body func(x *Exec)) *Result {
	res := &Result{Outcomes: map[string]int64{}, Exhaustive: true, PerBound: map[string]int64{}}
	if cfg.Shards <= 0 {
		cfg.Shards = 1
	}
	visited := map[uint64][nKinds]int8{}
	seenSig := map[string]bool{}

	runOne := func(prefix []int, trace bool) (*Sched, *Exec) {
		s := newSched(prefix, &cfg)
		s.budget = cfg.Budget
		s.delayMode = cfg.Delay
		s.usePrune = cfg.Prune && !trace
		s.visited = visited
		s.keepTrace = trace
		x := &Exec{s: s, Scenario: cfg.Name}
		S = s
		s.run(func() {
			body(x)
			Stop()
		})
		return s, x
	}

	if cfg.Replay != nil {
		s, x := runOne(cfg.Replay, true)
		res.Execs = 1
		res.Steps = int64(s.steps)
		res.Outcomes[x.outcome]++
		judge(cfg, s, x, res, seenSig, runOne)
		res.Sample = append(res.Sample, Replay{cfg.Name, cfg.Budget[:], cfg.MaxSteps, choicesOf(s), s.Trace})
		return res
	}

	// determinism self-check: the default schedule twice, identical traces
	{
		s1, _ := runOne(nil, true)
		s2, _ := runOne(nil, true)
		if strings.Join(s1.Trace, "\n") != strings.Join(s2.Trace, "\n") || s1.Diverged != "" {
			res.HarnessErr = fmt.Sprintf("nondeterministic harness: default schedule gave two different traces\n--- first\n%s\n--- second\n%s", strings.Join(s1.Trace, "\n"), strings.Join(s2.Trace, "\n"))
			res.Exhaustive = false
			return res
		}
		res.Sample = append(res.Sample, Replay{cfg.Name, cfg.Budget[:], cfg.MaxSteps, choicesOf(s1), headTail(s1.Trace, 40)})
	}

	type frame struct {
		prefix []int
	}
	stack := []frame{{nil}}
	for len(stack) > 0 {
		if cfg.MaxExecs > 0 && res.Execs >= cfg.MaxExecs {
			res.Exhaustive = false
			break
		}
		if !cfg.Deadline.IsZero() && res.Execs%16 == 0 && time.Now().After(cfg.Deadline) {
			res.Exhaustive = false
			break
		}
		f := stack[len(stack)-1]
		stack = stack[:len(stack)-1]
		s, x := runOne(f.prefix, false)
		res.Execs++
		res.Steps += int64(s.steps)
		if len(s.Points) > res.MaxDepth {
			res.MaxDepth = len(s.Points)
		}
		if s.Diverged != "" {
			res.HarnessErr = s.Diverged + fmt.Sprintf(" (prefix %v)", f.prefix)
			res.Exhaustive = false
			return res
		}
		switch {
		case s.Pruned:
			res.Pruned++
		case s.Truncated:
			res.Truncated++
			if !cfg.AllowTruncated {
				res.Exhaustive = false
			}
		}
		if !s.Pruned {
			res.Outcomes[x.outcome]++
			key := fmt.Sprintf("p%d/o%d/f%d/t%d", s.cost[0], s.cost[1], s.cost[2], s.cost[3])
			res.PerBound[key]++
			judge(cfg, s, x, res, seenSig, runOne)
		}
		// expand alternatives at every point after the prefix
		var cost [nKinds]int
		for i, p := range s.Points {
			// cost of the choices taken up to and including point i-1 is in cost
			if i >= len(f.prefix) {
				for a := p.NAlt - 1; a >= 1; a-- {
					k := int(p.Kind)
					if p.Kind == -1 {
						k = int(p.AltCost[a])
					}
					if k >= 0 && cost[k]+1 > cfg.Budget[k] {
						continue
					}
					np := append(append(make([]int, 0, i+1), choicesOfN(s, i)...), a)
					stack = append(stack, frame{np})
				}
			}
			// account the taken choice
			if p.Chosen != 0 {
				k := int(p.Kind)
				if p.Kind == -1 {
					k = int(p.AltCost[p.Chosen])
				}
				if k >= 0 {
					cost[k]++
				}
			}
		}
		if cfg.Shards > 1 && len(f.prefix) == 0 {
			// first execution: keep only this shard's share of the root's children
			kept := stack[:0]
			for i, fr := range stack {
				if i%cfg.Shards == cfg.Shard {
					kept = append(kept, fr)
				}
			}
			if cfg.Shard != 0 {
				// the root execution itself is accounted to shard 0 only
				res.Execs, res.Steps = 0, 0
				res.Outcomes = map[string]int64{}
				res.PerBound = map[string]int64{}
			}
			stack = kept
		}
	}
	res.States = int64(len(visited))
	return res
}

func headTail(t []string, n int) []string {
	if len(t) <= n {
		return t
	}
	return append(append(append([]string{}, t[:n/2]...), "..."), t[len(t)-n/2:]...)
}

func choicesOf(s *Sched) []int { return choicesOfN(s, len(s.Points)) }
func choicesOfN(s *Sched, n int) []int {
	c := make([]int, n)
	for i := 0; i < n; i++ {
		c[i] = s.Points[i].Chosen
	}
	return c
}

func judge(cfg Config, s *Sched, x *Exec, res *Result, seenSig map[string]bool, runOne func([]int, bool) (*Sched, *Exec)) {
	var fails []Failure
	if s.panicVal != nil {
		fails = append(fails, Failure{"panic/" + firstLine(fmt.Sprint(s.panicVal)), fmt.Sprintf("panic in instrumented code: %v\n%s", s.panicVal, s.panicStack)})
	}
	if s.Deadlock {
		res.Deadlocks++
		if !cfg.AllowDeadlock {
			fails = append(fails, Failure{"deadlock", "no thread can take a step:\n" + s.DeadlockInfo})
		}
	}
	fails = append(fails, x.fails...)
	for _, f := range fails {
		sig := cfg.Name + "::" + f.Sig
		if seenSig[sig] {
			for i := range res.Violations {
				if res.Violations[i].Sig == sig {
					// keep the shortest replay
					if len(s.Points) < len(res.Violations[i].Replay.Choices) {
						res.Violations[i].Replay.Choices = choicesOf(s)
						res.Violations[i].Detail = f.Detail
						res.Violations[i].Replay.Trace = nil
					}
				}
			}
			continue
		}
		seenSig[sig] = true
		res.Violations = append(res.Violations, Violation{Sig: sig, Detail: f.Detail, Replay: Replay{cfg.Name, cfg.Budget[:], cfg.MaxSteps, choicesOf(s), nil}})
	}
}

// Confirm re-executes every violation's replay n times; a violation that does not reproduce
// identically is turned into a harness error (never reported as a violation).
func Confirm(cfg Config, res *Result, body func(x *Exec), n int) {
	var kept []Violation
	for _, v := range res.Violations {
		ok := true
		var trace []string
		for i := 0; i < n && ok; i++ {
			c := cfg
			c.Replay = v.Replay.Choices
			r := Explore(c, body)
			found := false
			for _, w := range r.Violations {
				if w.Sig == v.Sig {
					found = true
				}
			}
			if !found {
				ok = false
			}
			if len(r.Sample) > 0 {
				trace = r.Sample[0].Trace
			}
		}
		if ok {
			v.Replay.Trace = headTail(trace, 200)
			kept = append(kept, v)
		} else {
			res.HarnessErr += fmt.Sprintf("violation %s did not reproduce on replay %v; ", v.Sig, v.Replay.Choices)
		}
	}
	res.Violations = kept
}

func firstLine(s string) string {
	if i := strings.IndexByte(s, '\n'); i >= 0 {
		s = s[:i]
	}
	if len(s) > 120 {
		s = s[:120]
	}
	return s
}

// LoadReplay reads a replay file written by the driver ({"replay": {...}}).
func LoadReplay(path string) (*Replay, error) {
	b, err := os.ReadFile(path)
	if err != nil {
		return nil, err
	}
	var w struct {
		Replay Replay `json:"replay"`
	}
	if err := json.Unmarshal(b, &w); err != nil {
		return nil, err
	}
	return &w.Replay, nil
}

func (r *Result) OutcomeList() []string {
	var o []string
	for k, v := range r.Outcomes {
		o = append(o, fmt.Sprintf("%s x%d", k, v))
	}
	sort.Strings(o)
	return o
}

// RunOnce executes body exactly once under the default schedule (no exploration).
func RunOnce(name string, maxSteps int, body func(x *Exec)) *Result {
	return Explore(Config{Name: name, MaxSteps: maxSteps, Replay: []int{}, Delay: true}, body)
}
