//go:build verif

// Package rt is the deterministic cooperative runtime of engine A ("weave").
//
// Instrumented terway code (see cmd/instr) reports every synchronisation / environment operation
// here; exactly one instrumented goroutine runs at a time; at every scheduling point the scheduler
// computes the enabled alternatives in a canonical order and asks the explorer (explore.go) which
// one to take. Channels stay native: a communication is *decided* by the scheduler first and
// executed natively afterwards, when it can no longer block.
package rt

import (
	"fmt"
	"os"
	"reflect"
	"runtime"
	"sort"
	"strings"
	"sync"
	"time"
)

type opKind uint8

const (
	opNop opKind = iota // runnable
	opLock
	opRLock
	opLockAnnounced // writer that announced itself on a RWMutex and waits for readers to drain
	opCondWait      // never enabled until signalled (then becomes opLock)
	opWGWait
	opRecv
	opSend
	opSelect
	opSleep
	opTimer   // periodic-task thread waiting for its next firing (or stop channel)
	opQuiesce // harness thread waiting for quiescence
	opDone
)

var opNames = [...]string{"nop", "lock", "rlock", "wlock-wait", "condwait", "wgwait", "recv", "send", "select", "sleep", "timer", "quiesce", "done"}

// Deviation kinds.
const (
	KPreempt = iota
	KOrder
	KFault
	KTimer
	nKinds
)

var KindNames = [...]string{"preempt", "order", "fault", "timer"}

type selCase struct {
	ch   reflect.Value
	send bool
}

type Thread struct {
	id    int
	name  string
	wake  chan int
	kind  opKind
	mu    *Mutex
	rw    *RWMutex
	wg    *WaitGroup
	cases []selCase
	hasDf bool
	wakeAt time.Duration // opSleep
	period time.Duration // opTimer
	abort bool
	h     uint64 // happens-before hash of everything this thread has observed
	lin   uint64 // lineage: stable identity across executions
	nkids uint64
}

type alt struct {
	t       *Thread
	caseIdx int
	partner *Thread
	pcase   int
	kind    int // deviation kind if this alternative is not the default one, -1 for scheduling
	timer   bool
	env     *envEvent
}

// envEvent is an environment event (a request cancellation, ...) that the explorer may deliver at
// any scheduling point, at most once, for one `timer` deviation.
type envEvent struct {
	name  string
	f     func()
	fired bool
}

// Point is one recorded choice.
type Point struct {
	Kind   int8 // -1 scheduling point, else KOrder/KFault/KTimer (in-thread choice)
	NAlt   int
	Chosen int
	// for scheduling points: cost kind of each alternative (KPreempt, KTimer or -1 = free)
	AltCost []int8
	Label   string
}

type Sched struct {
	mu       sync.Mutex
	cv       *sync.Cond
	threads  []*Thread
	cur      *Thread
	transit  int
	prefix   []int
	Points   []Point
	closed   map[uintptr]bool
	pinned   map[uintptr]reflect.Value // every channel the runtime has keyed by address stays reachable, so its address cannot be reused within the execution
	Trace    []string
	keepTrace bool
	Deadlock  bool
	DeadlockInfo string
	stopping  bool
	maxSteps  int
	steps     int
	Truncated bool
	Pruned    bool
	Diverged  string
	done      chan struct{}
	live      sync.WaitGroup
	oh        map[any]uint64
	cost      [nKinds]int
	budget    [nKinds]int
	visited   map[uint64][nKinds]int8
	usePrune  bool
	clock     time.Duration
	timers    []*Timer
	timerFires int
	states    int64
	panicVal  any
	panicStack string
	envHash   uint64
	idleOK    map[*Thread]bool
	envs      []*envEvent
	orderMode int // 0 sorted (default); 1 reversed; 2 rotated: used by engine B for whole-handler order deviations
	delayMode bool // every non-default scheduling alternative costs one deviation (delay bounding)
	frozen    bool // setup/teardown phase: default choice everywhere, nothing recorded, nothing explored
}

// S is the scheduler of the execution in progress (one at a time per process).
var S *Sched

func mix(a ...uint64) uint64 {
	h := uint64(1469598103934665603)
	for _, x := range a {
		for i := 0; i < 8; i++ {
			h ^= (x >> (8 * i)) & 0xff
			h *= 1099511628211
		}
	}
	return h
}

func hstr(s string) uint64 {
	h := uint64(1469598103934665603)
	for i := 0; i < len(s); i++ {
		h ^= uint64(s[i])
		h *= 1099511628211
	}
	return h
}

// touch: a write-like operation of t on obj.
func (s *Sched) touch(t *Thread, obj any, code uint64) {
	h := mix(t.h, s.oh[obj], code)
	t.h = h
	s.oh[obj] = h
}

// read: a read-like operation of t on obj.
func (s *Sched) read(t *Thread, obj any, code uint64) { t.h = mix(t.h, s.oh[obj], code) }

func (s *Sched) fingerprint() uint64 {
	ts := make([]uint64, 0, len(s.threads))
	for _, t := range s.threads {
		var objh uint64
		switch t.kind {
		case opLock, opCondWait:
			objh = s.oh[t.mu]
		case opRLock, opLockAnnounced:
			objh = s.oh[t.rw]
		case opWGWait:
			objh = s.oh[t.wg]
		}
		ts = append(ts, mix(t.lin, t.h, uint64(t.kind), objh))
	}
	os := make([]uint64, 0, len(s.oh))
	for _, v := range s.oh {
		os = append(os, v)
	}
	sort.Slice(ts, func(i, j int) bool { return ts[i] < ts[j] })
	sort.Slice(os, func(i, j int) bool { return os[i] < os[j] })
	return mix(append(append(ts, os...), uint64(s.clock), s.envHash)...)
}

type abortSignal struct{}

func newSched(prefix []int, cfg *Config) *Sched {
	s := &Sched{prefix: prefix, closed: map[uintptr]bool{}, pinned: map[uintptr]reflect.Value{}, maxSteps: cfg.MaxSteps, done: make(chan struct{}), oh: map[any]uint64{}, idleOK: map[*Thread]bool{}}
	if s.maxSteps == 0 {
		s.maxSteps = 2000
	}
	s.cv = sync.NewCond(&s.mu)
	return s
}

func (s *Sched) newThread(name string) *Thread {
	t := &Thread{id: len(s.threads), wake: make(chan int, 1), name: name}
	s.threads = append(s.threads, t)
	return t
}

func (s *Sched) run(main func()) {
	t := s.newThread("main")
	t.lin = 1
	s.cur = t
	s.live.Add(1)
	go func() {
		defer s.live.Done()
		defer s.threadExit(t)
		main()
	}()
	select {
	case <-s.done:
	case <-time.After(90 * time.Second):
		// an execution takes milliseconds; this is a lost hand-off inside the runtime or a thread blocked natively
		buf := make([]byte, 4<<20)
		n := runtime.Stack(buf, true)
		s.mu.Lock()
		fmt.Fprintf(os.Stderr, "rt: WATCHDOG: execution made no progress for 90s\nscheduler view:\n%s\ncur=%v transit=%d stopping=%v points=%d prefix=%v\n%s\n", s.describe(), s.cur != nil && true, s.transit, s.stopping, len(s.Points), s.prefix, string(buf[:n]))
		os.Exit(3)
	}
	c := make(chan struct{})
	go func() { s.live.Wait(); close(c) }()
	select {
	case <-c:
	case <-time.After(10 * time.Second):
		buf := make([]byte, 1<<20)
		n := runtime.Stack(buf, true)
		panic("rt: threads did not exit after the end of an execution (a thread blocks natively):\n" + string(buf[:n]))
	}
}

func (s *Sched) threadExit(t *Thread) {
	if r := recover(); r != nil {
		if _, ok := r.(abortSignal); ok {
			return
		}
		// a panic in instrumented code: record it, end the execution
		s.mu.Lock()
		if s.panicVal == nil {
			buf := make([]byte, 1<<16)
			n := runtime.Stack(buf, false)
			s.panicVal, s.panicStack = r, string(buf[:n])
		}
		t.kind = opDone
		if !s.stopping {
			s.finish()
		}
		s.mu.Unlock()
		return
	}
	if t.abort {
		return
	}
	s.mu.Lock()
	t.kind = opDone
	if !s.stopping {
		s.pickNext(t)
	}
	s.mu.Unlock()
}

// Go starts f as a new thread of the execution; it is itself a scheduling point.
func Go(f func()) { GoNamed("", f) }

func GoNamed(name string, f func()) {
	s := S
	s.mu.Lock()
	par := s.cur
	if par.abort {
		s.mu.Unlock()
		runtime.Goexit()
	}
	t := s.newThread(name)
	if name == "" {
		t.name = fmt.Sprintf("%s.%d", par.name, par.nkids)
	}
	t.kind = opNop
	par.nkids++
	t.lin = mix(par.lin, par.nkids)
	t.h = mix(par.h, 77)
	par.h = mix(par.h, 78)
	s.live.Add(1)
	s.mu.Unlock()
	go func() {
		defer s.live.Done()
		if <-t.wake; t.abort {
			return
		}
		defer s.threadExit(t)
		f()
	}()
	s.yield(opNop, nil)
}

// yield parks the current thread with a pending op and resumes when chosen.
func (s *Sched) yield(k opKind, fill func(t *Thread)) int {
	s.mu.Lock()
	t := s.cur
	if t.abort || s.stopping {
		t.abort = true
		s.mu.Unlock()
		runtime.Goexit()
	}
	t.kind = k
	if fill != nil {
		fill(t)
	}
	s.pickNext(t)
	s.mu.Unlock()
	v := <-t.wake
	if t.abort {
		runtime.Goexit()
	}
	return v
}

// key returns the identity of a channel and pins the channel for the rest of the execution.
func (s *Sched) key(ch reflect.Value) uintptr {
	p := ch.Pointer()
	if _, ok := s.pinned[p]; !ok {
		s.pinned[p] = ch
	}
	return p
}

func (s *Sched) chReady(ch reflect.Value, send bool) bool {
	if !ch.IsValid() || ch.IsNil() {
		return false
	}
	if send {
		return s.closed[s.key(ch)] || ch.Len() < ch.Cap()
	}
	if ch.Len() > 0 || s.closed[s.key(ch)] {
		return true
	}
	if ch.Type().ChanDir()&reflect.RecvDir == 0 {
		return false
	}
	// natively closed (ctx.Done())? a non-blocking receive may only ever report "closed"
	chosen, _, ok := reflect.Select([]reflect.SelectCase{{Dir: reflect.SelectRecv, Chan: ch}, {Dir: reflect.SelectDefault}})
	if chosen == 0 {
		if ok {
			panic("rt: a value arrived on a channel from an uninstrumented sender")
		}
		s.closed[s.key(ch)] = true
		return true
	}
	return false
}

func (t *Thread) commCases() []selCase {
	switch t.kind {
	case opRecv, opSend, opSelect, opTimer:
		return t.cases
	}
	return nil
}

func (s *Sched) alternatives(cur *Thread) []alt {
	var out, timers []alt
	order := make([]*Thread, 0, len(s.threads))
	if cur != nil && cur.kind != opDone {
		order = append(order, cur)
	}
	for _, t := range s.threads {
		if t != cur {
			order = append(order, t)
		}
	}
	var quiesce *Thread
	for _, t := range order {
		switch t.kind {
		case opNop, opSleep:
			out = append(out, alt{t: t, kind: -1})
		case opLock:
			if t.mu.owner == nil {
				out = append(out, alt{t: t, kind: -1})
			}
		case opRLock:
			if t.rw.writer == nil && t.rw.announced == 0 {
				out = append(out, alt{t: t, kind: -1})
			}
		case opLockAnnounced:
			if t.rw.writer == nil && t.rw.readers == 0 {
				out = append(out, alt{t: t, kind: -1})
			}
		case opWGWait:
			if t.wg.n == 0 {
				out = append(out, alt{t: t, kind: -1})
			}
		case opRecv, opSend, opSelect, opTimer:
			n0 := len(out)
			for ci, c := range t.commCases() {
				if s.chReady(c.ch, c.send) {
					out = append(out, alt{t: t, caseIdx: ci, kind: -1})
					continue
				}
				if !c.ch.IsValid() || c.ch.IsNil() {
					continue
				}
				for _, p := range s.threads {
					if p == t {
						continue
					}
					for pi, pc := range p.commCases() {
						if pc.send != c.send && pc.ch.IsValid() && !pc.ch.IsNil() && pc.ch.Pointer() == c.ch.Pointer() {
							out = append(out, alt{t: t, caseIdx: ci, partner: p, pcase: pi, kind: -1})
						}
					}
				}
			}
			if t.kind == opSelect && t.hasDf && len(out) == n0 {
				out = append(out, alt{t: t, caseIdx: -1, kind: -1})
			}
			if t.kind == opTimer && len(out) == n0 {
				timers = append(timers, alt{t: t, caseIdx: -1, kind: KTimer, timer: true})
			}
		case opQuiesce:
			quiesce = t
		}
	}
	if len(out) == 0 && quiesce != nil {
		out = append(out, alt{t: quiesce, kind: -1})
	}
	// virtual timers that are armed but not due: firing one is a `timer` deviation (the clock jumps)
	if quiesce != nil || len(out) > 0 {
		out = append(out, timers...)
		for _, e := range s.envs {
			if !e.fired {
				out = append(out, alt{kind: KTimer, timer: true, env: e})
			}
		}
	}
	return out
}

func (s *Sched) describe() string {
	var b strings.Builder
	for _, t := range s.threads {
		fmt.Fprintf(&b, "  thread %d %-24s %s", t.id, t.name, opNames[t.kind])
		switch t.kind {
		case opLock, opCondWait:
			if t.mu.owner != nil {
				fmt.Fprintf(&b, " (held by %d %s)", t.mu.owner.id, t.mu.owner.name)
			}
		}
		b.WriteByte('\n')
	}
	return b.String()
}

// pickNext is called with s.mu held by the thread that just parked or exited.
func (s *Sched) pickNext(from *Thread) {
	for s.transit > 0 {
		s.cv.Wait()
	}
	if s.stopping {
		return
	}
	alts := s.alternatives(from)
	for len(alts) == 0 {
		// nothing can run: let virtual time pass to the next armed timer, if any (discrete-event step)
		var next *Timer
		for _, tm := range s.timers {
			if tm.active && (next == nil || tm.at < next.at) {
				next = tm
			}
		}
		if next == nil {
			break
		}
		s.advance(next.at - s.clock)
		alts = s.alternatives(from)
	}
	if len(alts) == 0 {
		done := true
		for _, t := range s.threads {
			if t.kind != opDone {
				done = false
			}
		}
		if !done {
			// the harness thread itself is blocked (it would otherwise be runnable or waiting for
			// quiescence): some client operation can never complete
			s.Deadlock = true
			s.DeadlockInfo = s.describe()
		}
		s.finish()
		return
	}
	if s.frozen {
		s.steps++
		if s.steps > s.maxSteps*4 {
			s.Truncated = true
			s.finish()
			return
		}
		s.dispatch(alts[0])
		return
	}
	s.steps++
	if s.steps > s.maxSteps {
		s.Truncated = true
		s.finish()
		return
	}
	i := len(s.Points)
	if s.usePrune && i >= len(s.prefix) {
		fp := s.fingerprint()
		var cv [nKinds]int8
		for k := range cv {
			cv[k] = int8(s.cost[k])
		}
		if old, ok := s.visited[fp]; ok {
			le := true
			ge := true
			for k := range cv {
				if old[k] > cv[k] {
					le = false
				}
				if old[k] < cv[k] {
					ge = false
				}
			}
			if le {
				s.Pruned = true
				s.finish()
				return
			}
			if ge {
				s.visited[fp] = cv
			}
		} else {
			s.visited[fp] = cv
			s.states++
		}
	}
	idx := 0
	if i < len(s.prefix) {
		idx = s.prefix[i]
		if idx >= len(alts) {
			s.Diverged = fmt.Sprintf("replay divergence at point %d (scheduling): choice %d of %d alternatives", i, idx, len(alts))
			s.finish()
			return
		}
	}
	curEnabled := alts[0].t == from && !alts[0].timer
	costs := make([]int8, len(alts))
	for k, a := range alts {
		switch {
		case a.timer:
			costs[k] = KTimer
		case s.delayMode && k > 0:
			costs[k] = KPreempt
		case curEnabled && a.t != from && a.partner != from:
			costs[k] = KPreempt
		default:
			costs[k] = -1
		}
	}
	// the default alternative (index 0) must be free
	if costs[0] >= 0 {
		costs[0] = -1
	}
	if c := costs[idx]; c >= 0 {
		s.cost[c]++
	}
	s.Points = append(s.Points, Point{Kind: -1, NAlt: len(alts), Chosen: idx, AltCost: costs})
	if e := alts[idx].env; e != nil {
		// deliver the environment event, then decide again from the same parked state
		e.fired = true
		s.envHash = mix(s.envHash, 91, hstr(e.name), uint64(len(s.Points)))
		if s.keepTrace {
			s.Trace = append(s.Trace, "env:"+e.name)
		}
		e.f()
		s.pickNext(from)
		return
	}
	s.dispatch(alts[idx])
}

// dispatch performs the logical effect of the chosen alternative and hands the token over.
func (s *Sched) dispatch(a alt) {
	t := a.t
	t.h = mix(t.h, 100+uint64(t.kind))
	switch t.kind {
	case opLock:
		t.mu.owner = t
		s.touch(t, t.mu, 1)
	case opRLock:
		t.rw.readers++
		s.touch(t, t.rw, 2)
	case opLockAnnounced:
		t.rw.announced--
		t.rw.writer = t
		s.touch(t, t.rw, 3)
	case opWGWait:
		s.read(t, t.wg, 4)
	case opSleep:
		if t.wakeAt > s.clock {
			s.advance(t.wakeAt - s.clock)
		}
	case opRecv, opSend, opSelect, opTimer:
		if a.timer {
			s.timerFires++
			s.advance(t.period)
			t.h = mix(t.h, 55, uint64(s.clock))
		} else if a.caseIdx >= 0 {
			c := t.commCases()[a.caseIdx]
			key := s.key(c.ch)
			if a.partner != nil {
				h := mix(t.h, a.partner.h, s.oh[key], uint64(a.caseIdx), uint64(a.pcase))
				t.h, a.partner.h, s.oh[key] = mix(h, 1), mix(h, 2), h
			} else if c.send || c.ch.Len() > 0 {
				s.touch(t, key, uint64(10+a.caseIdx))
			} else {
				s.read(t, key, uint64(20+a.caseIdx)) // closed
			}
		} else {
			for _, c := range t.cases {
				if c.ch.IsValid() && !c.ch.IsNil() {
					s.read(t, s.key(c.ch), 30)
				}
			}
		}
	}
	if s.keepTrace && !s.frozen {
		s.Trace = append(s.Trace, fmt.Sprintf("%d:%s:%s/%d", t.id, t.name, opNames[t.kind], a.caseIdx))
	}
	if a.partner != nil {
		p := a.partner
		s.transit++
		p.kind = opNop // after its native half it re-parks as runnable
		p.wake <- a.pcase
	}
	s.cur = t
	t.wake <- a.caseIdx
}

func (s *Sched) finish() {
	s.stopping = true
	for _, t := range s.threads {
		if t.kind != opDone {
			t.abort = true
			select {
			case t.wake <- 0:
			default:
			}
		}
	}
	close(s.done)
}

func (s *Sched) partnerPark(t *Thread) {
	s.mu.Lock()
	s.transit--
	s.cv.Broadcast()
	s.mu.Unlock()
	<-t.wake
	if t.abort {
		runtime.Goexit()
	}
}

// choose is an in-thread choice point (map order, fault, ...): alternative 0 is the default and is
// free; any other alternative costs one deviation of the given kind. When the budget of that kind
// is exhausted the choice is not even recorded as open (NAlt=1).
func (s *Sched) choose(kind int, n int, label string) int {
	if n <= 1 {
		return 0
	}
	s.mu.Lock()
	defer s.mu.Unlock()
	if s.frozen {
		return 0
	}
	t := s.cur
	i := len(s.Points)
	idx := 0
	if i < len(s.prefix) {
		idx = s.prefix[i]
		if idx >= n {
			s.Diverged = fmt.Sprintf("replay divergence at point %d (%s %s): choice %d of %d", i, KindNames[kind], label, idx, n)
			idx = 0
		}
	}
	if idx != 0 {
		s.cost[kind]++
	}
	s.Points = append(s.Points, Point{Kind: int8(kind), NAlt: n, Chosen: idx, Label: label})
	t.h = mix(t.h, 200+uint64(kind), uint64(idx), hstr(label))
	if s.keepTrace {
		s.Trace = append(s.Trace, fmt.Sprintf("%d:%s:choose-%s(%s)=%d/%d", t.id, t.name, KindNames[kind], label, idx, n))
	}
	return idx
}

// ---------------------------------------------------------------- public API used by harnesses

// Choose lets a harness or a simulated environment ask the explorer for one of n answers.
func Choose(kind int, n int, label string) int { return S.choose(kind, n, label) }

// Yield is a plain scheduling point.
func Yield() { S.yield(opNop, nil) }

// Point is a scheduling point that is also a visible write on obj.
func PointOn(obj any, code uint64) {
	s := S
	s.yield(opNop, nil)
	s.mu.Lock()
	s.touch(s.cur, obj, code)
	s.mu.Unlock()
}

// Observe mixes an environment value into the fingerprint (state the runtime cannot see).
func Observe(v uint64) {
	s := S
	s.mu.Lock()
	s.envHash = mix(s.envHash, v)
	s.cur.h = mix(s.cur.h, v)
	s.mu.Unlock()
}

// WaitQuiescent parks the calling (harness) thread until no other thread can take a step
// (timer deviations excepted).
func WaitQuiescent() { S.yield(opQuiesce, nil) }

// Idle declares that the calling thread's current blocking wait is a legitimate idle state
// (not a deadlock) — used by worker loops' shims.
func markIdle(t *Thread) { S.idleOK[t] = true }

// Stop ends the execution from the harness thread.
func Stop() {
	s := S
	s.mu.Lock()
	s.cur.kind = opDone
	if !s.stopping {
		s.finish()
	}
	s.mu.Unlock()
	runtime.Goexit()
}

// EnvEvent registers an environment event that the explorer may deliver (call f, which must not
// block or call back into the runtime) at any later scheduling point, at most once.
func EnvEvent(name string, f func()) {
	s := S
	s.mu.Lock()
	s.envs = append(s.envs, &envEvent{name: name, f: f})
	s.mu.Unlock()
}

// SetOrderMode selects the map-iteration order for everything that follows (0 sorted, 1 reversed, 2 rotated).
func SetOrderMode(m int) {
	s := S
	s.mu.Lock()
	s.orderMode = m
	s.mu.Unlock()
}

// Freeze(true) starts a setup/teardown phase: the scheduler takes the default alternative at every
// point and records nothing, so the phase is deterministic and is not explored. Freeze(false) ends it.
func Freeze(on bool) {
	s := S
	s.mu.Lock()
	s.frozen = on
	s.mu.Unlock()
}

// Steps returns the number of scheduling steps so far.
func Steps() int { return S.steps }

func TraceLines() []string { return S.Trace }
