//go:build verif

package rt

import (
	"context"
	"time"

	metav1 "k8s.io/apimachinery/pkg/apis/meta/v1"
	"k8s.io/apimachinery/pkg/util/cache"
	"k8s.io/apimachinery/pkg/util/wait"
	"k8s.io/utils/lru"
)

// BlockForever is `select {}`.
func BlockForever() {
	S.yield(opCondWait, func(t *Thread) { t.mu = &Mutex{}; S.idleOK[t] = true })
}

// ---------------------------------------------------------------- k8s wait helpers

func WaitExponentialBackoffWithContext(ctx context.Context, b wait.Backoff, cond wait.ConditionWithContextFunc) error {
	for b.Steps > 0 {
		if err := ctx.Err(); err != nil {
			return err
		}
		ok, err := cond(ctx)
		if err != nil || ok {
			return err
		}
		if b.Steps == 1 {
			break
		}
		d := b.Step()
		TimeSleep(d)
	}
	if err := ctx.Err(); err != nil {
		return err
	}
	return wait.ErrWaitTimeout
}

func WaitPollUntilContextCancel(ctx context.Context, interval time.Duration, immediate bool, cond wait.ConditionWithContextFunc) error {
	first := true
	for {
		if err := ctx.Err(); err != nil {
			return err
		}
		if immediate || !first {
			ok, err := cond(ctx)
			if err != nil || ok {
				return err
			}
		}
		first = false
		if !timerWait(ctx.Done(), interval) {
			return ctx.Err()
		}
	}
}

func WaitPollUntilContextTimeout(ctx context.Context, interval, timeout time.Duration, immediate bool, cond wait.ConditionWithContextFunc) error {
	c, cancel := CtxWithTimeout(ctx, timeout)
	defer cancel()
	first := true
	for {
		if err := c.Err(); err != nil {
			return err
		}
		if immediate || !first {
			ok, err := cond(c)
			if err != nil || ok {
				return err
			}
		}
		first = false
		TimeSleep(interval)
	}
}

// WaitGroupK8s is wait.Group on rt threads.
type WaitGroupK8s struct{ wg WaitGroup }

func (g *WaitGroupK8s) Wait() { g.wg.Wait() }
func (g *WaitGroupK8s) Start(f func()) {
	g.wg.Add(1)
	Go(func() { defer g.wg.Done(); f() })
}
func (g *WaitGroupK8s) StartWithChannel(stop <-chan struct{}, f func(stop <-chan struct{})) {
	g.Start(func() { f(stop) })
}
func (g *WaitGroupK8s) StartWithContext(ctx context.Context, f func(context.Context)) {
	g.Start(func() { f(ctx) })
}

// ---------------------------------------------------------------- errgroup

type ErrGroup struct {
	wg     WaitGroup
	mu     Mutex
	err    error
	cancel func()
}

func ErrGroupWithContext(ctx context.Context) (*ErrGroup, context.Context) {
	c, cancel := context.WithCancel(ctx)
	return &ErrGroup{cancel: cancel}, c
}
func (g *ErrGroup) SetLimit(n int) {}
func (g *ErrGroup) Go(f func() error) {
	g.wg.Add(1)
	Go(func() {
		defer g.wg.Done()
		if err := f(); err != nil {
			g.mu.Lock()
			if g.err == nil {
				g.err = err
				if g.cancel != nil {
					g.cancel()
				}
			}
			g.mu.Unlock()
		}
	})
}
func (g *ErrGroup) Wait() error {
	g.wg.Wait()
	if g.cancel != nil {
		g.cancel()
	}
	return g.err
}

// ---------------------------------------------------------------- singleflight

type sfCall struct {
	wg   WaitGroup
	val  any
	err  error
	dups int
}

type SFGroup struct {
	mu Mutex
	m  map[string]*sfCall
}

func (g *SFGroup) Do(key string, fn func() (any, error)) (v any, err error, shared bool) {
	g.mu.Lock()
	if g.m == nil {
		g.m = map[string]*sfCall{}
	}
	if c, ok := g.m[key]; ok {
		c.dups++
		g.mu.Unlock()
		c.wg.Wait()
		return c.val, c.err, true
	}
	c := &sfCall{}
	c.wg.Add(1)
	g.m[key] = c
	g.mu.Unlock()
	func() {
		defer func() {
			g.mu.Lock()
			c.wg.Done()
			if g.m[key] == c {
				delete(g.m, key)
			}
			g.mu.Unlock()
		}()
		c.val, c.err = fn()
	}()
	return c.val, c.err, c.dups > 0
}
func (g *SFGroup) Forget(key string) {
	g.mu.Lock()
	delete(g.m, key)
	g.mu.Unlock()
}

// ---------------------------------------------------------------- caches whose single operations are atomic:
// every operation is a scheduling point so that compound read-modify-write sequences interleave.

type LRU struct{ c *lru.Cache }

func NewLRU(size int) *LRU { return &LRU{c: lru.New(size)} }
func (l *LRU) Add(k lru.Key, v any)          { PointOn(l, 30); l.c.Add(k, v) }
func (l *LRU) Get(k lru.Key) (any, bool)     { PointOn(l, 31); return l.c.Get(k) }
func (l *LRU) Remove(k lru.Key)              { PointOn(l, 32); l.c.Remove(k) }
func (l *LRU) Len() int                      { PointOn(l, 33); return l.c.Len() }
func (l *LRU) Clear()                        { PointOn(l, 34); l.c.Clear() }
func (l *LRU) RemoveOldest()                 { PointOn(l, 35); l.c.RemoveOldest() }

type rtClock struct{}

func (rtClock) Now() time.Time { return TimeNow() }

type ExpireCache struct{ c *cache.LRUExpireCache }

func NewExpireCache(n int) *ExpireCache {
	return &ExpireCache{c: cache.NewLRUExpireCacheWithClock(n, rtClock{})}
}
func (e *ExpireCache) Add(k, v any, ttl time.Duration) { PointOn(e, 36); e.c.Add(k, v, ttl) }
func (e *ExpireCache) Get(k any) (any, bool)           { PointOn(e, 37); return e.c.Get(k) }
func (e *ExpireCache) Remove(k any)                    { PointOn(e, 38); e.c.Remove(k) }
func (e *ExpireCache) RemoveAll(p func(key any) bool)  { PointOn(e, 39); e.c.RemoveAll(p) }
func (e *ExpireCache) Keys() []any                     { PointOn(e, 40); return e.c.Keys() }

func MetaNow() metav1.Time { return metav1.NewTime(TimeNow()) }

// ---------------------------------------------------------------- samber/lo map helpers (order-controlled)

func LoKeys[K comparable, V any](in map[K]V) []K {
	kv := MapRange(in)
	out := make([]K, 0, len(kv))
	for _, e := range kv {
		out = append(out, e.K)
	}
	return out
}
func LoValues[K comparable, V any](in map[K]V) []V {
	kv := MapRange(in)
	out := make([]V, 0, len(kv))
	for _, e := range kv {
		out = append(out, e.V)
	}
	return out
}
func LoPickBy[K comparable, V any](in map[K]V, pred func(K, V) bool) map[K]V {
	r := map[K]V{}
	for _, e := range MapRange(in) {
		if pred(e.K, e.V) {
			r[e.K] = e.V
		}
	}
	return r
}
func LoOmitBy[K comparable, V any](in map[K]V, pred func(K, V) bool) map[K]V {
	r := map[K]V{}
	for _, e := range MapRange(in) {
		if !pred(e.K, e.V) {
			r[e.K] = e.V
		}
	}
	return r
}
func LoFindKeyBy[K comparable, V any](in map[K]V, pred func(K, V) bool) (K, bool) {
	for _, e := range MapRange(in) {
		if pred(e.K, e.V) {
			return e.K, true
		}
	}
	var z K
	return z, false
}
func LoMapToSlice[K comparable, V any, R any](in map[K]V, it func(K, V) R) []R {
	kv := MapRange(in)
	out := make([]R, 0, len(kv))
	for _, e := range kv {
		out = append(out, it(e.K, e.V))
	}
	return out
}

type LoEntry[K comparable, V any] struct {
	Key   K
	Value V
}

func LoEntries[K comparable, V any](in map[K]V) []LoEntry[K, V] {
	kv := MapRange(in)
	out := make([]LoEntry[K, V], 0, len(kv))
	for _, e := range kv {
		out = append(out, LoEntry[K, V]{e.K, e.V})
	}
	return out
}
func LoMapValues[K comparable, V any, R any](in map[K]V, it func(V, K) R) map[K]R {
	r := map[K]R{}
	for _, e := range MapRange(in) {
		r[e.K] = it(e.V, e.K)
	}
	return r
}
func LoMapKeys[K comparable, V any, R comparable](in map[K]V, it func(V, K) R) map[R]V {
	r := map[R]V{}
	for _, e := range MapRange(in) {
		r[it(e.V, e.K)] = e.V
	}
	return r
}
func LoMapEntries[K1 comparable, V1 any, K2 comparable, V2 any](in map[K1]V1, it func(K1, V1) (K2, V2)) map[K2]V2 {
	r := map[K2]V2{}
	for _, e := range MapRange(in) {
		k, v := it(e.K, e.V)
		r[k] = v
	}
	return r
}
