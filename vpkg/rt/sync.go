//go:build verif

package rt

import (
	"sort"
	"sync"
)

// ---------------------------------------------------------------- Mutex

type Mutex struct{ owner *Thread }

func (m *Mutex) Lock() {
	S.yield(opLock, func(t *Thread) { t.mu = m })
}

func (m *Mutex) TryLock() bool {
	s := S
	s.yield(opNop, nil)
	s.mu.Lock()
	defer s.mu.Unlock()
	if m.owner != nil {
		s.read(s.cur, m, 40)
		return false
	}
	m.owner = s.cur
	s.touch(s.cur, m, 1)
	return true
}

func (m *Mutex) Unlock() {
	s := S
	s.mu.Lock()
	if m.owner == nil && !s.stopping {
		s.mu.Unlock()
		panic("sync: unlock of unlocked mutex")
	}
	m.owner = nil
	if s.cur != nil {
		s.touch(s.cur, m, 5)
	}
	s.mu.Unlock()
}

type Locker = sync.Locker

// ---------------------------------------------------------------- RWMutex

type RWMutex struct {
	writer    *Thread
	readers   int
	announced int
}

func (m *RWMutex) Lock() {
	s := S
	s.yield(opNop, nil) // the call itself: announces
	s.mu.Lock()
	if m.writer == nil && m.readers == 0 && m.announced == 0 {
		m.writer = s.cur
		s.touch(s.cur, m, 3)
		s.mu.Unlock()
		return
	}
	m.announced++
	s.touch(s.cur, m, 6)
	s.mu.Unlock()
	s.yield(opLockAnnounced, func(t *Thread) { t.rw = m })
}

func (m *RWMutex) Unlock() {
	s := S
	s.mu.Lock()
	m.writer = nil
	if s.cur != nil {
		s.touch(s.cur, m, 7)
	}
	s.mu.Unlock()
}

func (m *RWMutex) RLock() {
	S.yield(opRLock, func(t *Thread) { t.rw = m })
}

func (m *RWMutex) RUnlock() {
	s := S
	s.mu.Lock()
	m.readers--
	if s.cur != nil {
		s.touch(s.cur, m, 8)
	}
	s.mu.Unlock()
}

func (m *RWMutex) TryLock() bool {
	s := S
	s.yield(opNop, nil)
	s.mu.Lock()
	defer s.mu.Unlock()
	if m.writer == nil && m.readers == 0 && m.announced == 0 {
		m.writer = s.cur
		s.touch(s.cur, m, 3)
		return true
	}
	s.read(s.cur, m, 41)
	return false
}

func (m *RWMutex) RLocker() sync.Locker { return (*rlocker)(m) }

type rlocker RWMutex

func (r *rlocker) Lock()   { (*RWMutex)(r).RLock() }
func (r *rlocker) Unlock() { (*RWMutex)(r).RUnlock() }

// ---------------------------------------------------------------- Cond

type Cond struct {
	L       sync.Locker
	waiters []*Thread
}

func NewCond(l sync.Locker) *Cond { return &Cond{L: l} }

func (c *Cond) mutex() *Mutex {
	m, ok := c.L.(*Mutex)
	if !ok {
		panic("rt: Cond over a Locker that is not *rt.Mutex is not supported")
	}
	return m
}

func (c *Cond) Wait() {
	s := S
	m := c.mutex()
	s.mu.Lock()
	m.owner = nil
	s.touch(s.cur, m, 5)
	s.touch(s.cur, c, 9)
	c.waiters = append(c.waiters, s.cur)
	s.mu.Unlock()
	s.yield(opCondWait, func(t *Thread) { t.mu = m; S.idleOK[t] = true })
	s.mu.Lock()
	delete(s.idleOK, s.cur)
	s.mu.Unlock()
}

func (c *Cond) Broadcast() {
	s := S
	s.mu.Lock()
	if s.cur != nil {
		s.touch(s.cur, c, 10)
	}
	for _, w := range c.waiters {
		w.kind = opLock
		w.h = mix(w.h, s.oh[c])
	}
	c.waiters = nil
	s.mu.Unlock()
}

func (c *Cond) Signal() {
	s := S
	s.mu.Lock()
	if s.cur != nil {
		s.touch(s.cur, c, 11)
	}
	if len(c.waiters) > 0 {
		w := c.waiters[0]
		c.waiters = c.waiters[1:]
		w.kind = opLock
		w.h = mix(w.h, s.oh[c])
	}
	s.mu.Unlock()
}

// ---------------------------------------------------------------- WaitGroup

type WaitGroup struct{ n int }

func (w *WaitGroup) Add(d int) {
	s := S
	s.mu.Lock()
	w.n += d
	if w.n < 0 && !s.stopping {
		s.mu.Unlock()
		panic("sync: negative WaitGroup counter")
	}
	if s.cur != nil {
		s.touch(s.cur, w, 12)
	}
	s.mu.Unlock()
}
func (w *WaitGroup) Done() { w.Add(-1) }
func (w *WaitGroup) Wait() { S.yield(opWGWait, func(t *Thread) { t.wg = w }) }
func (w *WaitGroup) Go(f func()) {
	w.Add(1)
	Go(func() { defer w.Done(); f() })
}

// ---------------------------------------------------------------- Once

type Once struct {
	m    Mutex
	done bool
}

func (o *Once) Do(f func()) {
	o.m.Lock()
	defer o.m.Unlock()
	if !o.done {
		defer func() { o.done = true }()
		f()
	}
}

// ---------------------------------------------------------------- Map

// Map is sync.Map with a scheduling point before every operation and a deterministic,
// explorer-controlled Range order.
type Map struct {
	m sync.Map
}

func (m *Map) pt(code uint64) { PointOn(m, code) }

func (m *Map) Load(k any) (any, bool)               { m.pt(20); return m.m.Load(k) }
func (m *Map) Store(k, v any)                       { m.pt(21); m.m.Store(k, v) }
func (m *Map) LoadOrStore(k, v any) (any, bool)     { m.pt(22); return m.m.LoadOrStore(k, v) }
func (m *Map) LoadAndDelete(k any) (any, bool)      { m.pt(23); return m.m.LoadAndDelete(k) }
func (m *Map) Delete(k any)                         { m.pt(24); m.m.Delete(k) }
func (m *Map) Swap(k, v any) (any, bool)            { m.pt(25); return m.m.Swap(k, v) }
func (m *Map) CompareAndSwap(k, o, n any) bool      { m.pt(26); return m.m.CompareAndSwap(k, o, n) }
func (m *Map) CompareAndDelete(k, o any) bool       { m.pt(27); return m.m.CompareAndDelete(k, o) }
func (m *Map) Clear()                               { m.pt(28); m.m.Clear() }
func (m *Map) Range(f func(k, v any) bool) {
	m.pt(29)
	type kv struct {
		k, v any
		s    string
	}
	var all []kv
	m.m.Range(func(k, v any) bool { all = append(all, kv{k, v, keyString(k)}); return true })
	sort.Slice(all, func(i, j int) bool { return all[i].s < all[j].s })
	p := permChoice(len(all), "syncmap")
	for _, i := range p {
		if !f(all[i].k, all[i].v) {
			return
		}
	}
}
