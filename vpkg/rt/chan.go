//go:build verif

package rt

import (
	"cmp"
	"fmt"
	"reflect"
	"sort"
)

// Token identifies the thread that entered a communication; Post uses it to tell the primary half
// (the thread the scheduler chose) from the partner half (released to perform its native op).
type Token = *Thread

func pre(k opKind, ch any, send bool) Token {
	s := S
	t := s.cur
	s.yield(k, func(t *Thread) { t.cases = []selCase{{reflect.ValueOf(ch), send}} })
	return t
}

func PreSend(ch any) Token { return pre(opSend, ch, true) }
func PreRecv(ch any) Token { return pre(opRecv, ch, false) }

// Post must be called right after the native channel operation.
func Post(t Token) {
	s := S
	s.mu.Lock()
	primary := s.cur == t
	s.mu.Unlock()
	if !primary {
		s.partnerPark(t)
	}
}

// Recv is `<-ch`.
func Recv[T any](ch <-chan T) T {
	t := PreRecv(ch)
	v := <-ch
	Post(t)
	return v
}

// Recv2 is `v, ok := <-ch`.
func Recv2[T any](ch <-chan T) (T, bool) {
	t := PreRecv(ch)
	v, ok := <-ch
	Post(t)
	return v, ok
}

// Close is close(ch): a visible operation.
func Close[T any](ch chan<- T) {
	s := S
	s.yield(opNop, nil)
	s.mu.Lock()
	p := s.key(reflect.ValueOf(ch))
	s.closed[p] = true
	s.touch(s.cur, p, 6)
	s.mu.Unlock()
	close(ch)
}

// CallCancel runs a context.CancelFunc as a visible operation.
func CallCancel(cancel func()) {
	s := S
	s.mu.Lock()
	ab := s.stopping || s.cur == nil || s.cur.abort
	s.mu.Unlock()
	if ab {
		cancel()
		return
	}
	s.yield(opNop, nil)
	s.mu.Lock()
	s.cur.h = mix(s.cur.h, 7)
	s.envHash = mix(s.envHash, s.cur.h)
	s.mu.Unlock()
	cancel()
}

type SelCase = selCase

func R(ch any) SelCase  { return selCase{reflect.ValueOf(ch), false} }
func Sd(ch any) SelCase { return selCase{reflect.ValueOf(ch), true} }

// Select decides which case of a select statement proceeds; -1 = default.
func Select(hasDefault bool, cases ...SelCase) (int, Token) {
	s := S
	t := s.cur
	idx := s.yield(opSelect, func(t *Thread) { t.cases = cases; t.hasDf = hasDefault })
	return idx, t
}

// ---------------------------------------------------------------- map iteration order

type KV[K comparable, V any] struct {
	K K
	V V
}

func keyString(k any) string {
	switch x := k.(type) {
	case string:
		return "s" + x
	case fmt.Stringer:
		return "S" + x.String()
	}
	v := reflect.ValueOf(k)
	switch v.Kind() {
	case reflect.Int, reflect.Int8, reflect.Int16, reflect.Int32, reflect.Int64:
		return fmt.Sprintf("i%020d", uint64(v.Int())+1<<63)
	case reflect.Uint, reflect.Uint8, reflect.Uint16, reflect.Uint32, reflect.Uint64:
		return fmt.Sprintf("u%020d", v.Uint())
	case reflect.String:
		return "s" + v.String()
	case reflect.Bool:
		return fmt.Sprint(v.Bool())
	case reflect.Ptr, reflect.Chan, reflect.UnsafePointer, reflect.Func:
		panic(fmt.Sprintf("rt: map key of kind %v has no stable order", v.Kind()))
	}
	return fmt.Sprintf("%#v", k)
}

// permChoice returns the iteration permutation of n sorted entries: identity by default; the
// alternatives (cost: one `order` deviation) are all n! permutations for n<=3 and rotations +
// reversal beyond.
func permChoice(n int, label string) []int {
	id := make([]int, n)
	for i := range id {
		id[i] = i
	}
	if n < 2 {
		return id
	}
	var perms [][]int
	if n <= 3 {
		var rec func(p []int, rest []int)
		rec = func(p []int, rest []int) {
			if len(rest) == 0 {
				perms = append(perms, append([]int{}, p...))
				return
			}
			for i := range rest {
				r2 := append(append([]int{}, rest[:i]...), rest[i+1:]...)
				rec(append(p, rest[i]), r2)
			}
		}
		rec(nil, id)
	} else {
		for r := 0; r < n; r++ {
			p := make([]int, n)
			for i := range p {
				p[i] = (i + r) % n
			}
			perms = append(perms, p)
		}
		rev := make([]int, n)
		for i := range rev {
			rev[i] = n - 1 - i
		}
		perms = append(perms, rev)
	}
	s := S
	if s != nil && s.orderMode > 0 {
		// engine B: a whole handler runs under one fixed alternative iteration order
		switch s.orderMode {
		case 1: // reversed
			return perms[len(perms)-1]
		default: // rotated by one
			p := make([]int, n)
			for i := range p {
				p[i] = (i + 1) % n
			}
			return p
		}
	}
	if s == nil || s.budget[KOrder] == 0 {
		return id
	}
	return perms[s.choose(KOrder, len(perms), fmt.Sprintf("%s/%d", label, n))]
}

// MapRange is `for k, v := range m`: a snapshot of the entries in an explorer-chosen order.
func MapRange[M ~map[K]V, K comparable, V any](m M) []KV[K, V] {
	if len(m) == 0 {
		return nil
	}
	type ent struct {
		kv KV[K, V]
		s  string
	}
	all := make([]ent, 0, len(m))
	for k, v := range m {
		all = append(all, ent{KV[K, V]{k, v}, keyString(k)})
	}
	sort.Slice(all, func(i, j int) bool { return all[i].s < all[j].s })
	p := permChoice(len(all), "map")
	out := make([]KV[K, V], len(all))
	for i, j := range p {
		out[i] = all[j].kv
	}
	return out
}

// SortedKeys is a helper for shims of lo.Keys and friends.
func SortedKeys[M ~map[K]V, K comparable, V any](m M) []K {
	kv := MapRange(m)
	out := make([]K, len(kv))
	for i, e := range kv {
		out[i] = e.K
	}
	return out
}

func sortOrdered[T cmp.Ordered](a []T) { sort.Slice(a, func(i, j int) bool { return a[i] < a[j] }) }
