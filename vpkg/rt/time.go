//go:build verif

package rt

import (
	"context"
	"reflect"
	"sort"
	"time"
)

// ---------------------------------------------------------------- virtual clock

var epoch = time.Date(2024, 1, 1, 0, 0, 0, 0, time.UTC)

func TimeNow() time.Time {
	s := S
	if s == nil {
		return epoch
	}
	s.mu.Lock()
	defer s.mu.Unlock()
	if s.cur != nil {
		s.cur.h = mix(s.cur.h, 60, uint64(s.clock))
	}
	return epoch.Add(s.clock)
}
func TimeSince(t time.Time) time.Duration { return TimeNow().Sub(t) }
func TimeUntil(t time.Time) time.Duration { return t.Sub(TimeNow()) }

// advance moves the clock and fires due timers; s.mu held.
func (s *Sched) advance(d time.Duration) {
	if d < 0 {
		return
	}
	s.clock += d
	sort.SliceStable(s.timers, func(i, j int) bool { return s.timers[i].at < s.timers[j].at })
	rest := s.timers[:0]
	for _, tm := range s.timers {
		if tm.at <= s.clock && tm.active {
			tm.fire(s)
		}
		if tm.active {
			rest = append(rest, tm)
		}
	}
	s.timers = rest
}

// Advance is the harness/environment event "time passes".
func Advance(d time.Duration) {
	s := S
	s.yield(opNop, nil)
	s.mu.Lock()
	s.advance(d)
	s.cur.h = mix(s.cur.h, 61, uint64(s.clock))
	s.mu.Unlock()
}

func Clock() time.Duration { s := S; s.mu.Lock(); defer s.mu.Unlock(); return s.clock }

// Sleep: the thread parks; whenever it is scheduled again the clock is at least its wake time.
func TimeSleep(d time.Duration) {
	s := S
	s.yield(opSleep, func(t *Thread) { t.wakeAt = s.clock + d })
}

// ---------------------------------------------------------------- timers

type Timer struct {
	C      <-chan time.Time
	c      chan time.Time
	at     time.Duration
	active bool
	f      func()
}

func (tm *Timer) fire(s *Sched) {
	tm.active = false
	if tm.f != nil {
		f := tm.f
		// AfterFunc: run as a new thread
		par := s.cur
		t := s.newThread("afterfunc")
		t.kind = opNop
		par.nkids++
		t.lin = mix(par.lin, par.nkids)
		t.h = mix(par.h, 79)
		s.live.Add(1)
		go func() {
			defer s.live.Done()
			if <-t.wake; t.abort {
				return
			}
			defer s.threadExit(t)
			f()
		}()
		return
	}
	select {
	case tm.c <- epoch.Add(s.clock):
		k := s.key(reflect.ValueOf(tm.c))
		s.oh[k] = mix(s.oh[k], 62, uint64(s.clock))
	default:
	}
}

func newTimer(d time.Duration, f func()) *Timer {
	s := S
	c := make(chan time.Time, 1)
	tm := &Timer{C: c, c: c, f: f}
	s.mu.Lock()
	tm.at = s.clock + d
	tm.active = true
	if d <= 0 {
		tm.fire(s)
	} else {
		s.timers = append(s.timers, tm)
	}
	s.mu.Unlock()
	return tm
}

func NewTimer(d time.Duration) *Timer               { return newTimer(d, nil) }
func TimeAfter(d time.Duration) <-chan time.Time    { return newTimer(d, nil).C }
func TimeAfterFunc(d time.Duration, f func()) *Timer { return newTimer(d, f) }

func (tm *Timer) Stop() bool {
	s := S
	s.mu.Lock()
	defer s.mu.Unlock()
	was := tm.active
	tm.active = false
	for i, x := range s.timers {
		if x == tm {
			s.timers = append(s.timers[:i], s.timers[i+1:]...)
			break
		}
	}
	return was
}

func (tm *Timer) Reset(d time.Duration) bool {
	was := tm.Stop()
	s := S
	s.mu.Lock()
	tm.at = s.clock + d
	tm.active = true
	if d <= 0 {
		tm.fire(s)
	} else {
		s.timers = append(s.timers, tm)
	}
	s.mu.Unlock()
	return was
}

// ---------------------------------------------------------------- periodic tasks (k8s wait.*)

// timerWait parks a periodic-task thread until its stop channel closes (free) or the explorer
// fires the timer (a `timer` deviation that advances the clock by period). Returns false on stop.
func timerWait(stop any, period time.Duration) bool {
	s := S
	idx := s.yield(opTimer, func(t *Thread) {
		t.cases = []selCase{{reflect.ValueOf(stop), false}}
		t.period = period
	})
	return idx < 0
}

func stopped(stop <-chan struct{}) bool {
	select {
	case <-stop:
		return true
	default:
		return false
	}
}

func WaitJitterUntil(f func(), period time.Duration, jitter float64, sliding bool, stop <-chan struct{}) {
	for {
		if stopped(stop) {
			return
		}
		f()
		if !timerWait(stop, period) {
			return
		}
	}
}
func WaitUntil(f func(), period time.Duration, stop <-chan struct{}) {
	WaitJitterUntil(f, period, 0, true, stop)
}
func WaitJitterUntilWithContext(ctx context.Context, f func(context.Context), period time.Duration, jitter float64, sliding bool) {
	WaitJitterUntil(func() { f(ctx) }, period, jitter, sliding, ctx.Done())
}
func WaitUntilWithContext(ctx context.Context, f func(context.Context), period time.Duration) {
	WaitJitterUntil(func() { f(ctx) }, period, 0, true, ctx.Done())
}
func WaitJitter(d time.Duration, maxFactor float64) time.Duration { return d }

// ---------------------------------------------------------------- rate limiter

type RateLimiter struct{}

func NewRateLimiter(r any, b int) *RateLimiter { return &RateLimiter{} }
func (l *RateLimiter) Wait(ctx context.Context) error {
	Yield()
	return ctx.Err()
}
func (l *RateLimiter) WaitN(ctx context.Context, n int) error { return l.Wait(ctx) }
func (l *RateLimiter) Allow() bool                           { return true }
func (l *RateLimiter) AllowN(t time.Time, n int) bool        { return true }

// ---------------------------------------------------------------- context with virtual deadlines

// CtxWithTimeout: a native cancel context (so child propagation stays synchronous and spawns no
// goroutine) whose deadline is a virtual timer.
func CtxWithTimeout(parent context.Context, d time.Duration) (context.Context, context.CancelFunc) {
	ctx, cancel := context.WithCancel(parent)
	tm := newTimer(d, nil)
	tm.f = func() { cancel() }
	if d <= 0 {
		cancel()
	}
	return ctx, func() { tm.Stop(); cancel() }
}
func CtxWithDeadline(parent context.Context, t time.Time) (context.Context, context.CancelFunc) {
	return CtxWithTimeout(parent, t.Sub(TimeNow()))
}

// ---------------------------------------------------------------- randomness

// RandShuffle: the permutation is an explorer choice (identity by default).
func RandShuffle(n int, swap func(i, j int)) {
	p := permChoice(n, "shuffle")
	// apply permutation p via swaps (selection): position i receives original element p[i]
	pos := make([]int, n) // pos[orig] = current index of original element
	at := make([]int, n)  // at[idx] = original element currently at idx
	for i := 0; i < n; i++ {
		pos[i], at[i] = i, i
	}
	for i := 0; i < n; i++ {
		j := pos[p[i]]
		if i != j {
			swap(i, j)
			oi, oj := at[i], at[j]
			at[i], at[j] = oj, oi
			pos[oi], pos[oj] = j, i
		}
	}
}
func RandIntn(n int) int {
	if n <= 1 {
		return 0
	}
	s := S
	if s == nil || s.budget[KOrder] == 0 {
		return 0
	}
	m := n
	if m > 4 {
		m = 4
	}
	return s.choose(KOrder, m, "intn")
}
