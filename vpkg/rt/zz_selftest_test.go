//go:build verif

package rt

import (
	"context"
	"fmt"
	"testing"
)

// lost update: two threads do lock;read;unlock;lock;write;unlock
func TestVerifRTSelfLostUpdate(t *testing.T) {
	for _, prune := range []bool{false, true} {
		cfg := Config{Name: "lostupdate", Budget: [4]int{2, 0, 0, 0}, Prune: prune}
		res := Explore(cfg, func(x *Exec) {
			var mu Mutex
			var wg WaitGroup
			n := 0
			for i := 0; i < 2; i++ {
				wg.Add(1)
				Go(func() {
					defer wg.Done()
					mu.Lock()
					v := n
					mu.Unlock()
					mu.Lock()
					n = v + 1
					mu.Unlock()
				})
			}
			wg.Wait()
			x.Outcome(fmt.Sprint(n))
			if n != 2 {
				x.Fail("lost", "lost update")
			}
		})
		if res.HarnessErr != "" {
			t.Fatal(res.HarnessErr)
		}
		t.Logf("prune=%v execs=%d pruned=%d states=%d outcomes=%v viol=%d", prune, res.Execs, res.Pruned, res.States, res.OutcomeList(), len(res.Violations))
		if len(res.Outcomes) != 2 || len(res.Violations) != 1 {
			t.Fatalf("expected outcomes {1,2} and one violation, got %v", res.OutcomeList())
		}
		Confirm(cfg, res, func(x *Exec) {}, 0)
	}
}

func TestVerifRTSelfChanSelectCond(t *testing.T) {
	var base []string
	for _, prune := range []bool{false, true} {
		cfg := Config{Name: "chan", Budget: [4]int{1, 1, 0, 0}, Prune: prune}
		res := Explore(cfg, func(x *Exec) {
			ch := make(chan int)
			done := make(chan struct{})
			ctx, cancel := context.WithCancel(context.Background())
			var got []int
			var gm Mutex
			add := func(v int) { gm.Lock(); got = append(got, v); gm.Unlock() }
			mu := &Mutex{}
			cond := NewCond(mu)
			ready := false
			Go(func() { t := PreSend(ch); ch <- 1; Post(t) })
			Go(func() { t := PreSend(ch); ch <- 2; Post(t) })
			Go(func() {
				mu.Lock()
				for !ready {
					cond.Wait()
				}
				mu.Unlock()
				for i := 0; i < 2; i++ {
					idx, tok := Select(false, R(ch), R(ctx.Done()))
					switch idx {
					case 0:
						v := <-ch
						Post(tok)
						add(v)
					case 1:
						<-ctx.Done()
						Post(tok)
						add(-1)
					}
				}
				Close(done)
			})
			Go(func() { mu.Lock(); ready = true; cond.Broadcast(); mu.Unlock() })
			Go(func() { CallCancel(cancel) })
			for _, kv := range MapRange(map[string]int{"a": 1, "b": 2}) {
				add(100 + kv.V)
				break
			}
			Recv(done)
			x.Outcome(fmt.Sprint(got))
		})
		if res.HarnessErr != "" {
			t.Fatal(res.HarnessErr)
		}
		t.Logf("prune=%v execs=%d pruned=%d states=%d outcomes=%d viol=%d %v", prune, res.Execs, res.Pruned, res.States, len(res.Outcomes), len(res.Violations), res.Violations)
		var keys []string
		for k := range res.Outcomes {
			keys = append(keys, k)
		}
		sortOrdered(keys)
		if base == nil {
			base = keys
		} else if fmt.Sprint(base) != fmt.Sprint(keys) {
			t.Fatalf("pruned search lost outcomes:\n%v\n%v", base, keys)
		}
		t.Log(keys)
	}
}
