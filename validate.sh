#!/bin/sh
# validates MANIFEST.json and every evidence file against the schemas
python3-vt - <<'PY'
import json,jsonschema,glob
jsonschema.validate(json.load(open('/verif/MANIFEST.json')), json.load(open('/root/.vp/MANIFEST.schema.json')))
es=json.load(open('/root/.vp/EVIDENCE.schema.json'))
for f in sorted(glob.glob('/verif/evidence/*.json')):
    jsonschema.validate(json.load(open(f)), es); print('ok', f)
print('manifest ok')
PY
