//go:build verif

package pod

import (
	"k8s.io/client-go/tools/record"
	"sigs.k8s.io/controller-runtime/pkg/client"

	register "github.com/AliyunContainerService/terway/pkg/controller"
	"github.com/AliyunContainerService/terway/pkg/vswitch"
	"github.com/AliyunContainerService/terway/types"
)

// VerifNewReconcilePod builds the pod controller without a controller-runtime manager (for the /verif harness only).
func VerifNewReconcilePod(c client.Client, aliyun register.Interface, trunkMode, crdMode bool) *ReconcilePod {
	sp, _ := vswitch.NewSwitchPool(100, "10m")
	return &ReconcilePod{client: c, scheme: types.Scheme, record: &record.FakeRecorder{}, aliyun: aliyun, swPool: sp, trunkMode: trunkMode, crdMode: crdMode}
}
