//go:build verif

package podeni

import (
	"fmt"
	"testing"

	"github.com/AliyunContainerService/terway/internal/verif/ev"
)

func bound(i int) []string {
	return []string{fmt.Sprintf("podCreate:%d:node-1", i), fmt.Sprintf("reconcilePod:%d", i), fmt.Sprintf("reconcilePodENI:%d", i)}
}

func TestVerifC10(t *testing.T) {
	r := ev.New("C10", "podeni-state-machine")
	defer r.Flush()
	depth := 4
	if ev.Thorough() {
		depth = 8
	}
	r.Rule(fmt.Sprintf("breadth-first search to depth %d (from the empty cluster and from roots with bound pods) over {podCreate on node-1 / on node-2 after a removal (same name, new UID), podExit, podRemove, reconcilePod(i), reconcilePodENI(i) — the two REAL controllers observe in any order —, gcCR, gcENI, clock steps around 1 min / TTL / 10 min, one-shot faults on Create/Attach/Detach/Delete, on the PodENI create call and on the next read of a Pod object} x trunk on/off x pod kinds {elastic, fixed, two interfaces}; oracles on every transition: (phase, phase') in the documented relation, a record disappears only from Deleting, no Detach/Delete of an interface whose record carries the UID of a pod that is still running; in the single-pod splitGC configurations the record collector is a second thread preempted between its reads and its status writes (gcCR/begin holds the writes back, any events follow, gcCR/end issues them unchanged against the then-current API server - resourceVersion preconditions and merge patches behave as on the wire); closure from every state: deleted elastic pod => record and interface gone, no controller-created interface without a record after the leak collector", depth))
	var cfgs []pwCfg
	for _, trunk := range []bool{false, true} {
		// the record collector preempted between its reads and its writes, other events in between (no cloud faults: the
		// budget goes into the interleaving)
		cfgs = append(cfgs, pwCfg{Trunk: trunk, Kinds: []string{"elastic"}, SplitGC: true}, pwCfg{Trunk: trunk, Kinds: []string{"two"}, SplitGC: true})
		cfgs = append(cfgs, pwCfg{Trunk: trunk, Kinds: []string{"elastic"}, Faults: true}, pwCfg{Trunk: trunk, Kinds: []string{"two"}, Faults: true}, pwCfg{Trunk: trunk, Kinds: []string{"elastic", "fixed-ttl"}})
	}
	pwRunBFS(r, t, "C10", cfgs, depth, func(cfg pwCfg) [][]string {
		roots := [][]string{{}, bound(0)}
		if len(cfg.Kinds) > 1 {
			roots = append(roots, append(bound(0), bound(1)...))
		}
		return roots
	})
}

func TestVerifC11(t *testing.T) {
	r := ev.New("C11", "fixed-ip-and-leak-gc")
	defer r.Flush()
	depth := 5
	if ev.Thorough() {
		depth = 9
	}
	r.Rule(fmt.Sprintf("breadth-first search to depth %d from roots with a fixed-IP pod {bound; removed and unbound; removed, absent for TTL-1 s, recreated and bound again} over the same alphabet as C10 with clock steps {61 s, TTL-1 s, TTL+1 s, 10 min+1 s} and pod kinds {fixed TTL, fixed Never, two interfaces TTL+elastic, TTL+Never, Never+TTL, long TTL+short TTL}; oracles: a fixed record is moved to Deleting/removed only by the collector, only when now-podLastSeen >= TTL - judged both by the record's own stamp and by the harness's ground truth of when the controller last saw the pod alive (a bind, a collector pass) - and never when an allocation says Never; closure: a pod that exists (recreated under the same name, same or other node) ends Bind with its new UID on the SAME interface and address", depth))
	var cfgs []pwCfg
	for _, trunk := range []bool{false, true} {
		for _, k := range []string{"fixed-ttl", "fixed-never", "two", "two-fixed", "two-fixed-rev", "two-ttl"} {
			cfgs = append(cfgs, pwCfg{Trunk: trunk, Kinds: []string{k}})
		}
		cfgs = append(cfgs, pwCfg{Trunk: trunk, Kinds: []string{"fixed-ttl"}, SplitGC: true})
	}
	pwRunBFS(r, t, "C11", cfgs, depth, func(cfg pwCfg) [][]string {
		unbound := append(bound(0), "podRemove:0", "reconcilePod:0", "reconcilePodENI:0")
		// absent for most of the TTL, then recreated and bound again: the last-seen stamp has to be fresh from here on
		rebound := append(append([]string{}, unbound...), "clock+ttl-1s", "podCreate:0:node-1", "reconcilePod:0", "reconcilePodENI:0")
		return [][]string{bound(0), unbound, rebound}
	})
}
