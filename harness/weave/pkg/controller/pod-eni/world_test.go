//go:build verif

package podeni

import (
	"context"
	"encoding/json"
	"fmt"
	apierrors "k8s.io/apimachinery/pkg/api/errors"
	"os"
	"sort"
	"strings"
	"testing"
	"time"

	"github.com/go-logr/logr"
	corev1 "k8s.io/api/core/v1"
	metav1 "k8s.io/apimachinery/pkg/apis/meta/v1"
	k8stypes "k8s.io/apimachinery/pkg/types"
	"k8s.io/client-go/tools/record"
	"sigs.k8s.io/controller-runtime/pkg/client"
	"sigs.k8s.io/controller-runtime/pkg/client/fake"
	"sigs.k8s.io/controller-runtime/pkg/client/interceptor"
	logf "sigs.k8s.io/controller-runtime/pkg/log"
	"sigs.k8s.io/controller-runtime/pkg/reconcile"

	"github.com/AliyunContainerService/terway/internal/verif/bfs"
	"github.com/AliyunContainerService/terway/internal/verif/ev"
	vrt "github.com/AliyunContainerService/terway/internal/verif/rt"
	"github.com/AliyunContainerService/terway/internal/verif/simcloud"
	aliyunClient "github.com/AliyunContainerService/terway/pkg/aliyun/client"
	"github.com/AliyunContainerService/terway/pkg/apis/network.alibabacloud.com/v1beta1"
	podctl "github.com/AliyunContainerService/terway/pkg/controller/pod"
	"github.com/AliyunContainerService/terway/pkg/controller/status"
	"github.com/AliyunContainerService/terway/types"
	"github.com/AliyunContainerService/terway/types/controlplane"
)

func init() { logf.SetLogger(logr.Discard()) }

type pwCfg struct {
	Trunk   bool
	Kinds   []string // per pod: "elastic", "fixed-ttl", "fixed-never", "two" (two interfaces: fixed-ttl + elastic), "two-fixed" (ttl + never)
	Faults  bool
	Foreign bool // foreign interfaces populate the cloud (leak collector)
	SplitGC bool // the record collector may be preempted between its reads and its writes (gcCR/begin ... gcCR/end); single-pod worlds only
}

func (c pwCfg) String() string {
	if c.SplitGC {
		return fmt.Sprintf("trunk=%v pods=%v faults=%v splitGC", c.Trunk, c.Kinds, c.Faults)
	}
	return fmt.Sprintf("trunk=%v pods=%v faults=%v", c.Trunk, c.Kinds, c.Faults)
}

const ttl = 5 * time.Minute

// pw: the real pod controller and the real PodENI controller (+ its collectors) on a fake API server and the simulated cloud.
type pw struct {
	cfg          pwCfg
	c            client.Client
	cloud        *simcloud.Cluster
	pc           *podctl.ReconcilePod
	ec           *ReconcilePodENI
	gen          map[int]int
	node         map[int]string
	events       []string
	failCreateCR bool
	failPodGet   bool                 // one-shot: the next read of a Pod object BY A CONTROLLER fails with a server error
	inCtl        bool                 // a controller entry point is running (the harness's own reads never fail)
	observed     map[string]time.Time // record name -> when the PodENI controller last demonstrably saw the pod alive (harness ground truth)
	prevPhase    map[string]string
	hadCR        map[string]bool
	logMark      int
	created      map[string]bool // interfaces created by the pod controller (by id)
	lastCR       map[string]*v1beta1.PodENI
	crGen        map[string]int // record name -> how many times a PodENI of that name has been created (incarnation)
	capturing    bool        // gcCR/begin is running: the collector's status writes are held back, not applied
	pendingGC    []pendingWr // writes the preempted collector has decided on and not yet issued (applied by gcCR/end)
}

// pendingWr is one status write of the record collector that is still to reach the API server.
type pendingWr struct {
	kind string // Update (carries the resourceVersion it read) | Patch (merge patch, no precondition)
	gen  int    // incarnation of the record the collector read
	obj  *v1beta1.PodENI
	do   func() error
}

func newPW(cfg pwCfg) *pw {
	w := &pw{cfg: cfg, cloud: simcloud.NewCluster(), gen: map[int]int{}, node: map[int]string{}, prevPhase: map[string]string{}, hadCR: map[string]bool{}, created: map[string]bool{}, crGen: map[string]int{}}
	trunk := cfg.Trunk
	controlplane.SetConfig(&controlplane.Config{ClusterID: "c1", VPCID: "vpc-1", EnableTrunk: &trunk, IPStack: "ipv4", IPAMType: "default"})
	objs := []client.Object{}
	for i, name := range []string{"node-1", "node-2"} {
		n := &corev1.Node{ObjectMeta: metav1.ObjectMeta{Name: name, Labels: map[string]string{corev1.LabelTopologyRegion: "r1", corev1.LabelInstanceTypeStable: "ecs.x", corev1.LabelTopologyZone: "z1"}, Annotations: map[string]string{}},
			Spec: corev1.NodeSpec{ProviderID: fmt.Sprintf("r1.i-%d", i+1)}}
		if cfg.Trunk {
			t := w.cloud.AddENI(&simcloud.CENI{Type: aliyunClient.ENITypeTrunk, Status: aliyunClient.ENIStatusInUse, InstanceID: fmt.Sprintf("i-%d", i+1), Foreign: true})
			n.Annotations[types.TrunkOn] = t.ID
		}
		objs = append(objs, n)
	}
	mkPN := func(name string, at v1beta1.AllocationType) *v1beta1.PodNetworking {
		return &v1beta1.PodNetworking{ObjectMeta: metav1.ObjectMeta{Name: name}, Spec: v1beta1.PodNetworkingSpec{AllocationType: at, SecurityGroupIDs: []string{"sg-1"}, VSwitchOptions: []string{"vsw-1"}},
			Status: v1beta1.PodNetworkingStatus{Status: v1beta1.NetworkingStatusReady, VSwitches: []v1beta1.VSwitch{{ID: "vsw-1", Zone: "z1"}}}}
	}
	objs = append(objs, mkPN("pn-elastic", v1beta1.AllocationType{Type: v1beta1.IPAllocTypeElastic}),
		mkPN("pn-fixed-ttl", v1beta1.AllocationType{Type: v1beta1.IPAllocTypeFixed, ReleaseStrategy: v1beta1.ReleaseStrategyTTL, ReleaseAfter: ttl.String()}),
		mkPN("pn-fixed-never", v1beta1.AllocationType{Type: v1beta1.IPAllocTypeFixed, ReleaseStrategy: v1beta1.ReleaseStrategyNever}))
	w.c = fake.NewClientBuilder().WithScheme(types.Scheme).WithStatusSubresource(&v1beta1.PodENI{}).WithObjects(objs...).
		WithInterceptorFuncs(interceptor.Funcs{Create: func(ctx context.Context, c client.WithWatch, obj client.Object, opts ...client.CreateOption) error {
			if _, ok := obj.(*v1beta1.PodENI); ok && w.failCreateCR {
				w.failCreateCR = false
				return fmt.Errorf("simulated API server failure creating the PodENI")
			}
			err := c.Create(ctx, obj, opts...)
			if _, ok := obj.(*v1beta1.PodENI); ok && err == nil {
				w.crGen[obj.GetName()]++
			}
			return err
		}, SubResourceUpdate: func(ctx context.Context, c client.Client, sub string, obj client.Object, opts ...client.SubResourceUpdateOption) error {
			if pe, ok := obj.(*v1beta1.PodENI); ok && w.capturing {
				held := pe.DeepCopy()
				gen := w.crGen[held.Name]
				w.pendingGC = append(w.pendingGC, pendingWr{"Update", gen, held, func() error {
					// the fake API server numbers resourceVersions per object, so a record deleted and created again can
					// repeat one; a real server never reuses a resourceVersion and checks the UID: an update read from an
					// earlier incarnation of the name is refused
					if w.crGen[held.Name] != gen {
						return apierrors.NewConflict(v1beta1.Resource("podenis"), held.Name, fmt.Errorf("the object has been deleted and created again"))
					}
					return c.SubResource(sub).Update(context.Background(), held, opts...)
				}})
				return nil
			}
			return c.SubResource(sub).Update(ctx, obj, opts...)
		}, SubResourcePatch: func(ctx context.Context, c client.Client, sub string, obj client.Object, patch client.Patch, opts ...client.SubResourcePatchOption) error {
			if pe, ok := obj.(*v1beta1.PodENI); ok && w.capturing {
				held := pe.DeepCopy()
				data, err := patch.Data(held) // what goes on the wire is fixed when the call is made
				if err != nil {
					return err
				}
				w.pendingGC = append(w.pendingGC, pendingWr{"Patch", w.crGen[held.Name], held, func() error {
					return c.SubResource(sub).Patch(context.Background(), held, client.RawPatch(patch.Type(), data), opts...)
				}})
				return nil
			}
			return c.SubResource(sub).Patch(ctx, obj, patch, opts...)
		}, Get: func(ctx context.Context, c client.WithWatch, key client.ObjectKey, obj client.Object, opts ...client.GetOption) error {
			if _, ok := obj.(*corev1.Pod); ok && w.failPodGet && w.inCtl {
				w.failPodGet = false
				return apierrors.NewInternalError(fmt.Errorf("simulated API server failure reading pod %s", key.Name))
			}
			return c.Get(ctx, key, obj, opts...)
		}}).Build()
	w.restart()
	return w
}

func (w *pw) restart() {
	w.pc = podctl.VerifNewReconcilePod(w.c, w.cloud, w.cfg.Trunk, false)
	w.ec = &ReconcilePodENI{client: w.c, scheme: types.Scheme, aliyun: w.cloud, record: &record.FakeRecorder{}, trunkMode: w.cfg.Trunk, nodeStatusCache: status.NewCache[status.NodeStatus]()}
}

func (w *pw) podName(i int) string { return fmt.Sprintf("p%d", i) }
func (w *pw) pod(i int) *corev1.Pod {
	p := &corev1.Pod{}
	if err := w.c.Get(context.Background(), client.ObjectKey{Namespace: "ns", Name: w.podName(i)}, p); err != nil {
		return nil
	}
	return p
}
func (w *pw) cr(i int) *v1beta1.PodENI {
	p := &v1beta1.PodENI{}
	if err := w.c.Get(context.Background(), client.ObjectKey{Namespace: "ns", Name: w.podName(i)}, p); err != nil {
		return nil
	}
	return p
}

func (w *pw) Enabled() []string {
	var evs []string
	for i := range w.cfg.Kinds {
		if p := w.pod(i); p == nil {
			evs = append(evs, fmt.Sprintf("podCreate:%d:node-1", i))
			if w.gen[i] > 0 {
				evs = append(evs, fmt.Sprintf("podCreate:%d:node-2", i))
			}
		} else {
			evs = append(evs, fmt.Sprintf("podRemove:%d", i))
			if p.Status.Phase != corev1.PodSucceeded {
				evs = append(evs, fmt.Sprintf("podExit:%d", i))
			}
		}
		evs = append(evs, fmt.Sprintf("reconcilePod:%d", i))
		if w.cr(i) != nil {
			evs = append(evs, fmt.Sprintf("reconcilePodENI:%d", i))
		}
	}
	switch {
	case len(w.pendingGC) > 0:
		evs = append(evs, "gcCR/end") // one collector goroutine: no second pass while the first is preempted
	case w.cfg.SplitGC && len(w.cfg.Kinds) == 1:
		evs = append(evs, "gcCR", "gcCR/begin")
	default:
		evs = append(evs, "gcCR")
	}
	evs = append(evs, "gcENI", "clock+61s", "clock+ttl-1s", "clock+ttl+1s", "clock+10m1s")
	if w.cfg.Faults && len(w.cloud.Armed) == 0 && !w.failCreateCR && !w.failPodGet {
		evs = append(evs, "fault:Create:before", "fault:Attach:before", "fault:Detach:before", "fault:Delete:before", "fault:Delete:after", "fault:crCreate", "fault:podGet")
	}
	return evs
}

func (w *pw) Apply(x *vrt.Exec, evn string) {
	w.events = append(w.events, evn)
	hist := strings.Join(w.events, " ; ")
	ctx := context.Background()
	// snapshot: phases and live pod uids at the start
	w.prevPhase = map[string]string{}
	for i := range w.cfg.Kinds {
		if cr := w.cr(i); cr != nil {
			w.prevPhase[cr.Name] = "ph:" + phaseOf(cr)
			w.hadCR[cr.Name] = true
		}
	}
	liveUID := map[string]string{} // uid -> pod name, pods that exist and have not exited
	for i := range w.cfg.Kinds {
		if p := w.pod(i); p != nil && p.Status.Phase != corev1.PodSucceeded && p.Status.Phase != corev1.PodFailed {
			liveUID[string(p.UID)] = p.Name
		}
	}
	eniOwner := map[string]string{} // eni id -> pod uid annotation of the record listing it
	for i := range w.cfg.Kinds {
		if cr := w.cr(i); cr != nil {
			for _, a := range cr.Spec.Allocations {
				eniOwner[a.ENI.ID] = cr.Annotations[types.PodUID]
			}
		}
	}
	w.logMark = len(w.cloud.Log)
	if w.observed == nil {
		w.observed = map[string]time.Time{}
	}
	evStart := vrt.TimeNow()
	podGetFaultArmed := w.failPodGet
	aliveAtStart := map[int]bool{}
	for k := range w.cfg.Kinds {
		// a pod whose sandbox has exited no longer needs its interface: the collector does not refresh the stamp for it
		if p := w.pod(k); p != nil && p.DeletionTimestamp.IsZero() && p.Status.Phase != corev1.PodSucceeded && p.Status.Phase != corev1.PodFailed {
			aliveAtStart[k] = true
		}
	}
	crFaultArmed := w.failCreateCR
	f := strings.Split(evn, ":")
	var i int
	if len(f) > 1 {
		fmt.Sscan(f[1], &i)
	}
	req := reconcile.Request{NamespacedName: k8stypes.NamespacedName{Namespace: "ns", Name: w.podName(i)}}
	switch f[0] {
	case "podCreate":
		w.gen[i]++
		w.node[i] = f[2]
		anno := map[string]string{types.PodENI: "true"}
		switch w.cfg.Kinds[i] {
		case "elastic":
			anno[types.PodNetworking] = "pn-elastic"
		case "fixed-ttl":
			anno[types.PodNetworking] = "pn-fixed-ttl"
		case "fixed-never":
			anno[types.PodNetworking] = "pn-fixed-never"
		case "two", "two-fixed", "two-fixed-rev", "two-ttl":
			first := fmt.Sprintf(`{"type":"Fixed","releaseStrategy":"TTL","releaseAfter":%q}`, ttl.String())
			second := `{"type":"Elastic"}`
			switch w.cfg.Kinds[i] {
			case "two-fixed":
				second = `{"type":"Fixed","releaseStrategy":"Never"}`
			case "two-fixed-rev": // the keep-saying allocation listed BEFORE the one whose TTL expires
				first, second = `{"type":"Fixed","releaseStrategy":"Never"}`, first
			case "two-ttl": // a long TTL listed before a short one
				first, second = fmt.Sprintf(`{"type":"Fixed","releaseStrategy":"TTL","releaseAfter":%q}`, (10*ttl).String()), first
			}
			anno[types.PodNetworks] = fmt.Sprintf(`{"podNetworks":[{"interface":"eth0","vSwitchOptions":["vsw-1"],"securityGroupIDs":["sg-1"],"allocationType":%s},{"interface":"eth1","vSwitchOptions":["vsw-1"],"securityGroupIDs":["sg-1"],"allocationType":%s}]}`, first, second)
		}
		_ = w.c.Create(ctx, &corev1.Pod{ObjectMeta: metav1.ObjectMeta{Namespace: "ns", Name: w.podName(i), UID: k8stypes.UID(fmt.Sprintf("uid-%d-%d", i, w.gen[i])), Annotations: anno},
			Spec: corev1.PodSpec{NodeName: f[2], Containers: []corev1.Container{{Name: "c"}}}})
	case "podRemove":
		if p := w.pod(i); p != nil {
			_ = w.c.Delete(ctx, p)
		}
	case "podExit":
		if p := w.pod(i); p != nil {
			p.Status.Phase = corev1.PodSucceeded
			_ = w.c.Status().Update(ctx, p)
		}
	case "reconcilePod":
		w.inCtl = true
		_, _ = w.pc.Reconcile(ctx, req)
		w.inCtl = false
	case "reconcilePodENI":
		w.inCtl = true
		_, _ = w.ec.Reconcile(ctx, req)
		w.inCtl = false
	case "gcCR":
		w.inCtl = true
		w.ec.gcCRPodENIs(ctx)
		w.inCtl = false
	case "gcCR/begin":
		// the collector lists, reads and decides; its writes are held back until gcCR/end (exact for one record: the
		// collector issues at most one write per record and never reads its result)
		w.inCtl, w.capturing = true, true
		w.ec.gcCRPodENIs(ctx)
		w.inCtl, w.capturing = false, false
	case "gcCR/end":
		for _, p := range w.pendingGC {
			_ = p.do()
		}
		w.pendingGC = nil
	case "gcENI":
		w.inCtl = true
		w.ec.gcSecondaryENI(ctx)
		w.ec.gcMemberENI(ctx)
		w.inCtl = false
	case "clock+61s":
		vrt.Advance(61 * time.Second)
	case "clock+ttl-1s":
		vrt.Advance(ttl - time.Second)
	case "clock+ttl+1s":
		vrt.Advance(ttl + time.Second)
	case "clock+10m1s":
		vrt.Advance(10*time.Minute + time.Second)
	case "fault":
		if f[1] == "crCreate" {
			w.failCreateCR = true
		} else if f[1] == "podGet" {
			w.failPodGet = true
		} else {
			w.cloud.Armed[f[1]] = f[2]
		}
	}
	vrt.WaitQuiescent()
	vrt.Advance(time.Second)
	for _, c := range w.cloud.Log[w.logMark:] {
		if c.Op == "Create" && c.ENI != "" {
			w.created[c.ENI] = true
		}
	}
	// ground truth for "since the controller last observed the pod": the collector reads every record's pod; a bind is
	// done for a pod the controller has just read
	switch f[0] {
	case "gcCR":
		if !podGetFaultArmed {
			for k := range w.cfg.Kinds {
				if aliveAtStart[k] && w.cr(k) != nil {
					w.observed[w.podName(k)] = evStart
				}
			}
		}
	case "reconcilePodENI":
		if cr := w.cr(i); aliveAtStart[i] && cr != nil && phaseOf(cr) == string(v1beta1.ENIPhaseBind) && w.prevPhase[cr.Name] != "ph:"+string(v1beta1.ENIPhaseBind) {
			w.observed[cr.Name] = evStart
		}
	}
	// (d, immediate form) a reconcilePod whose creation failed — at an interface or at the PodENI create call — has
	// rolled back what it created: no interface of ours without a record, unless the rollback's own delete was the failing call
	if f[0] == "reconcilePod" {
		deleteFaulted := false
		for _, c := range w.cloud.Log[w.logMark:] {
			if c.Op == "Delete" && c.Fault != "" {
				deleteFaulted = true
			}
		}
		_ = crFaultArmed
		if !deleteFaulted {
			ref := map[string]bool{}
			for k := range w.cfg.Kinds {
				if cr := w.cr(k); cr != nil {
					for _, a := range cr.Spec.Allocations {
						ref[a.ENI.ID] = true
					}
				}
			}
			for _, c := range w.cloud.Log[w.logMark:] {
				if c.Op == "Create" && c.ENI != "" && !c.Err {
					if e := w.cloud.ENIs[c.ENI]; e != nil && !e.Deleted && !ref[c.ENI] {
						x.Failf("C10/interface-without-record-after-failed-create", "reconcilePod created %s, the creation of the record (or of a further interface) failed, and %s was neither deleted nor recorded; cloud calls %v; %s", c.ENI, c.ENI, w.cloud.LogStrings(w.logMark), hist)
					}
				}
			}
		}
	}
	// (a) phase relation
	allowed := map[string]bool{"->": true, ">Bind": true, ">Deleting": true, "Bind>Detaching": true, "Bind>Deleting": true, "Detaching>Unbind": true, "Detaching>Deleting": true,
		"Unbind>Binding": true, "Unbind>Deleting": true, "Binding>Bind": true, "Binding>Deleting": true}
	for i := range w.cfg.Kinds {
		name := w.podName(i)
		cr := w.cr(i)
		before, had := w.prevPhase[name]
		before = strings.TrimPrefix(before, "ph:")
		switch {
		case cr == nil && had:
			if before != string(v1beta1.ENIPhaseDeleting) {
				x.Failf("C10/record-removed-from-phase/"+before, "PodENI %s disappeared from phase %q (only Deleting may be removed) on %s; %s", name, before, evn, hist)
			}
		case cr != nil && had:
			after := phaseOf(cr)
			if before != after && !allowed[before+">"+after] {
				x.Failf("C10/undocumented-phase-transition/"+before+">"+after, "PodENI %s moved %q -> %q on %s; %s", name, before, after, evn, hist)
			}
		}
	}
	// (b) no detach/delete of an interface whose record is bound to a pod instance that is still running
	for _, c := range w.cloud.Log[w.logMark:] {
		if (c.Op == "Detach" || c.Op == "Delete") && (!c.Err || c.Fault == "after") {
			if uid, ok := eniOwner[c.ENI]; ok && uid != "" {
				if name, lives := liveUID[uid]; lives {
					x.Failf("C10/eni-pulled-from-live-pod/"+c.Op, "%s while pod %s (uid %s) bound to it is still running; event %s; %s", c.String(), name, uid, evn, hist)
				}
			}
		}
	}
	// (C11) a fixed record is never moved to Deleting / removed while now - podLastSeen < TTL (never, for Never)
	for i, kind := range w.cfg.Kinds {
		if !strings.HasPrefix(kind, "fixed") && !strings.HasPrefix(kind, "two") {
			continue
		}
		name := w.podName(i)
		before, had := w.prevPhase[name]
		if !had || before == "ph:Deleting" {
			continue
		}
		cr := w.cr(i)
		gone := cr == nil || phaseOf(cr) == string(v1beta1.ENIPhaseDeleting)
		if !gone {
			continue
		}
		// legitimate only through the collector after the TTL, and never when any allocation says Never
		prev := w.lastCR[name]
		if prev == nil {
			continue
		}
		never := false
		ttl := time.Duration(0) // the longest TTL among the fixed allocations: the record is kept if ANY allocation says keep
		for _, a := range prev.Spec.Allocations {
			if a.AllocationType.Type == v1beta1.IPAllocTypeFixed && a.AllocationType.ReleaseStrategy == v1beta1.ReleaseStrategyNever {
				never = true
			}
			if a.AllocationType.Type == v1beta1.IPAllocTypeFixed && a.AllocationType.ReleaseStrategy == v1beta1.ReleaseStrategyTTL {
				if d, err := time.ParseDuration(a.AllocationType.ReleaseAfter); err == nil && d > ttl {
					ttl = d
				}
			}
		}
		age := vrt.TimeNow().Add(-time.Second).Sub(prev.Status.PodLastSeen.Time)
		switch {
		case never:
			x.Failf("C11/fixed-never-record-released", "record %s (an allocation with strategy Never) moved to Deleting/removed on %s; %s", name, evn, hist)
		case evn != "gcCR" && evn != "gcCR/end":
			x.Failf("C11/fixed-record-released-outside-collector", "fixed-IP record %s moved to Deleting/removed by %s; %s", name, evn, hist)
		case age < ttl:
			x.Failf("C11/fixed-record-released-before-ttl", "fixed-IP record %s released %v after the pod was last seen, TTL %v; %s", name, age, ttl, hist)
		default:
			// the record's own last-seen stamp may be stale: the controller demonstrably saw the pod later (a bind for the
			// live pod, or a collector pass while it lived)
			if o, ok := w.observed[name]; ok && o.After(prev.Status.PodLastSeen.Time) {
				if age2 := vrt.TimeNow().Add(-time.Second).Sub(o); age2 < ttl {
					x.Failf("C11/fixed-record-released-before-ttl-since-last-observation", "fixed-IP record %s released %v after the controller last saw its pod alive (its last-seen stamp is %v older than that observation), TTL %v; %s", name, age2, o.Sub(prev.Status.PodLastSeen.Time), ttl, hist)
				}
			}
		}
	}
	w.lastCR = map[string]*v1beta1.PodENI{}
	for i := range w.cfg.Kinds {
		if cr := w.cr(i); cr != nil {
			w.lastCR[cr.Name] = cr
		}
	}
}

// phaseOf: a record whose deletion has been requested (deletionTimestamp set, finalizer pending) is in the
// "deleting" state of the documented machine whatever its status.phase field still says.
func phaseOf(cr *v1beta1.PodENI) string {
	if !cr.DeletionTimestamp.IsZero() {
		return string(v1beta1.ENIPhaseDeleting)
	}
	return string(cr.Status.Phase)
}

func (w *pw) Canon() string {
	var parts []string
	for i := range w.cfg.Kinds {
		p, cr := w.pod(i), w.cr(i)
		s := w.podName(i) + "{"
		if p != nil {
			s += fmt.Sprintf("pod uid=%s node=%s phase=%s ", p.UID, p.Spec.NodeName, p.Status.Phase)
		}
		if cr != nil {
			var en []string
			for _, a := range cr.Spec.Allocations {
				en = append(en, a.ENI.ID+"/"+a.IPv4+"/"+string(a.AllocationType.Type))
			}
			seen := "fresh"
			if age := vrt.TimeNow().Sub(cr.Status.PodLastSeen.Time); cr.Status.PodLastSeen.IsZero() {
				seen = "never"
			} else if age >= ttl {
				seen = "expired"
			} else if age > ttl-2*time.Second {
				seen = "edge"
			}
			s += fmt.Sprintf("cr phase=%s uid=%s inst=%s node=%s enis=%v seen=%s del=%v", cr.Status.Phase, cr.Annotations[types.PodUID], cr.Status.InstanceID, cr.Labels[types.ENIRelatedNodeName], en, seen, !cr.DeletionTimestamp.IsZero())
		}
		parts = append(parts, s+"}")
	}
	armed, _ := json.Marshal(w.cloud.Armed)
	// age class of cloud interfaces matters for the leak collector
	var ages []string
	for _, id := range w.cloud.SortedIDs() {
		e := w.cloud.ENIs[id]
		if e.Deleted {
			continue
		}
		a := "young"
		if vrt.Clock()-e.Created > 10*time.Minute {
			a = "old"
		}
		ages = append(ages, id+":"+a)
	}
	var pend []string
	for _, pw := range w.pendingGC {
		cur := &v1beta1.PodENI{}
		state := "record-gone"
		if err := w.c.Get(context.Background(), client.ObjectKeyFromObject(pw.obj), cur); err == nil {
			state = "record-changed"
			if cur.ResourceVersion == pw.obj.ResourceVersion && pw.gen == w.crGen[pw.obj.Name] {
				state = "record-unchanged"
			}
		}
		pend = append(pend, fmt.Sprintf("%s %s phase=%s %s", pw.kind, pw.obj.Name, pw.obj.Status.Phase, state))
	}
	return fmt.Sprintf("%v CLOUD:%s AGES:%v armed=%s failCR=%v failPodGet=%v pendingGC=%v", parts, w.cloud.Canon(), ages, armed, w.failCreateCR, w.failPodGet, pend)
}

// closure: healthy loop from the current state
func (w *pw) closure(x *vrt.Exec, hist []string) {
	h := strings.Join(hist, " ; ")
	w.cloud.Armed = map[string]string{}
	w.failCreateCR = false
	w.failPodGet = false
	ctx := context.Background()
	if len(w.pendingGC) > 0 {
		// a preempted collector: the controllers settle first, then its held writes land, then the controllers run again -
		// every step through Apply, so the transition oracles (phase relation, no interface pulled from a running pod) judge it
		for round := 0; round < 4; round++ {
			for i := range w.cfg.Kinds {
				w.Apply(x, fmt.Sprintf("reconcilePod:%d", i))
				w.Apply(x, fmt.Sprintf("reconcilePodENI:%d", i))
			}
		}
		w.Apply(x, "gcCR/end")
		for round := 0; round < 2; round++ {
			for i := range w.cfg.Kinds {
				w.Apply(x, fmt.Sprintf("reconcilePod:%d", i))
				w.Apply(x, fmt.Sprintf("reconcilePodENI:%d", i))
			}
		}
	}
	// remember what must survive
	type keep struct{ eni, ip string }
	fixedBefore := map[int][]keep{}
	for i, kind := range w.cfg.Kinds {
		if cr := w.cr(i); cr != nil && (strings.HasPrefix(kind, "fixed") || strings.HasPrefix(kind, "two")) && cr.Status.Phase != v1beta1.ENIPhaseDeleting && cr.DeletionTimestamp.IsZero() {
			for _, a := range cr.Spec.Allocations {
				if a.AllocationType.Type == v1beta1.IPAllocTypeFixed {
					fixedBefore[i] = append(fixedBefore[i], keep{a.ENI.ID, a.IPv4})
				}
			}
		}
	}
	for round := 0; round < 8; round++ {
		for i := range w.cfg.Kinds {
			req := reconcile.Request{NamespacedName: k8stypes.NamespacedName{Namespace: "ns", Name: w.podName(i)}}
			_, _ = w.pc.Reconcile(ctx, req)
			vrt.WaitQuiescent()
			_, _ = w.ec.Reconcile(ctx, req)
			vrt.WaitQuiescent()
		}
		w.ec.gcCRPodENIs(ctx)
		vrt.Advance(10 * time.Second)
	}
	// (c) a removed non-fixed pod: interface detached and deleted, record gone
	for i, kind := range w.cfg.Kinds {
		p, cr := w.pod(i), w.cr(i)
		if p == nil && kind == "elastic" && cr != nil {
			x.Failf("C10/record-of-deleted-pod-never-removed", "pod %s is gone (no fixed IP) but its PodENI is still there in phase %q after the healthy loop; CR %+v; history %s", w.podName(i), cr.Status.Phase, cr.Spec.Allocations, h)
		}
		// (C11) a fixed-IP pod that exists ends bound, with the same interface and address it had
		if p != nil && p.Status.Phase != corev1.PodSucceeded && len(fixedBefore[i]) > 0 {
			if cr == nil {
				x.Failf("C11/fixed-record-lost", "pod %s exists but its fixed-IP record is gone after the healthy loop; history %s", p.Name, h)
				continue
			}
			for _, k := range fixedBefore[i] {
				found := false
				for _, a := range cr.Spec.Allocations {
					found = found || (a.ENI.ID == k.eni && a.IPv4 == k.ip)
				}
				if !found {
					x.Failf("C11/recreated-pod-got-other-address", "pod %s had fixed interface %s / %s, after the healthy loop its record lists %+v; history %s", p.Name, k.eni, k.ip, cr.Spec.Allocations, h)
				}
			}
			if cr.Status.Phase != v1beta1.ENIPhaseBind || cr.Annotations[types.PodUID] != string(p.UID) {
				x.Failf("C11/recreated-pod-not-rebound", "pod %s (uid %s): record phase %q uid %q after the healthy loop; history %s", p.Name, p.UID, cr.Status.Phase, cr.Annotations[types.PodUID], h)
			}
		}
	}
	// (d) no interface without a record, once the leak collector had its chance
	vrt.Advance(10*time.Minute + time.Second)
	for k := 0; k < 3; k++ {
		w.ec.gcSecondaryENI(ctx)
		w.ec.gcMemberENI(ctx)
		vrt.WaitQuiescent()
	}
	ref := map[string]bool{}
	for i := range w.cfg.Kinds {
		if cr := w.cr(i); cr != nil {
			for _, a := range cr.Spec.Allocations {
				ref[a.ENI.ID] = true
			}
		}
	}
	for _, id := range w.cloud.SortedIDs() {
		e := w.cloud.ENIs[id]
		if e.Deleted || e.Foreign || !w.created[id] {
			continue
		}
		if !ref[id] {
			x.Failf("C10/interface-without-record", "interface %s created by the pod controller still exists (status %s) with no record referring to it, after the healthy loop and the leak collector; cloud log %v; history %s", id, e.Status, w.cloud.LogStrings(0), h)
		}
	}
	for id := range ref {
		if e := w.cloud.ENIs[id]; e == nil || e.Deleted {
			x.Failf("C10/record-without-interface", "a record refers to interface %s which no longer exists; history %s", id, h)
		}
	}
}

func pwRunBFS(r *ev.Rec, t *testing.T, prop string, cfgs []pwCfg, depth int, roots func(cfg pwCfg) [][]string) {
	if rp := os.Getenv("VERIF_REPLAY"); rp != "" {
		b, _ := os.ReadFile(rp)
		var doc struct {
			Replay struct {
				Config  string   `json:"config"`
				History []string `json:"history"`
			} `json:"replay"`
		}
		_ = json.Unmarshal(b, &doc)
		if si, _ := ev.Shard(); si == 0 {
			for _, cfg := range cfgs {
				if cfg.String() != doc.Replay.Config {
					continue
				}
				res := vrt.RunOnce("replay", 400000, func(x *vrt.Exec) {
					w := newPW(cfg)
					vrt.Freeze(true)
					for _, e := range doc.Replay.History {
						w.Apply(x, e)
						fmt.Printf("--- after %s\n%s\n", e, w.Canon())
					}
					w.closure(x, doc.Replay.History)
					fmt.Printf("--- after closure\n%s\ncloud: %v\n", w.Canon(), w.cloud.LogStrings(0))
				})
				for _, v := range res.Violations {
					fmt.Printf("VIOLATION-IN-REPLAY %s\n%s\n", v.Sig, v.Detail)
					r.Violate(strings.SplitN(v.Sig, "::", 2)[1], v.Detail, doc.Replay)
				}
			}
			r.Case("replay", doc.Replay)
			r.Distinct("replay2")
		}
		return
	}
	si, sn := ev.Shard()
	dl := ev.Deadline(150*time.Second, 40*time.Minute)
	// split (config, root, first event) triples over the shards
	k := 0
	for _, cfg := range cfgs {
		cfg := cfg
		var mine [][]string
		first := newPW(cfg).alphabet()
		for _, rt := range roots(cfg) {
			for _, e := range first {
				if k%sn == si {
					mine = append(mine, append(append([]string{}, rt...), e))
				}
				k++
			}
		}
		if len(mine) == 0 {
			continue
		}
		res := bfs.Run(bfs.Config{Name: cfg.String(), MaxDepth: depth - 1, Deadline: dl, Roots: mine,
			Build:   func(x *vrt.Exec) bfs.World { return newPW(cfg) },
			OnState: func(x *vrt.Exec, w bfs.World, hist []string) { w.(*pw).closure(x, hist) }})
		if res.HarnessErr != "" {
			t.Fatalf("harness error in %s: %s", cfg, res.HarnessErr)
		}
		for _, v := range res.Violations {
			if !strings.HasPrefix(v.Sig, prop+"/") {
				continue // the other property's oracle; its own check reports it
			}
			r.Violate(v.Sig, v.Detail, map[string]any{"config": cfg.String(), "history": v.History})
		}
		r.States(res.States)
		r.Transitions(res.Transitions)
		r.Traces(res.Replays)
		r.Add("closure_runs", res.Closures)
		r.Case(fmt.Sprintf("%s/%d/%d", cfg, si, res.States), map[string]any{"config": cfg.String(), "roots": len(mine), "states": res.States, "transitions": res.Transitions, "depth": res.Depth + 1, "frontier_emptied": res.FrontierEmptied, "closures": res.Closures, "sample_histories": res.SampleHist})
		if time.Now().After(dl) {
			r.NotExhaustive()
			break
		}
	}
	r.Distinct("all")
	r.Distinct(fmt.Sprintf("shard%d", si))
}

func (w *pw) alphabet() []string {
	var evs []string
	for i := range w.cfg.Kinds {
		evs = append(evs, fmt.Sprintf("podCreate:%d:node-1", i), fmt.Sprintf("podCreate:%d:node-2", i), fmt.Sprintf("podRemove:%d", i), fmt.Sprintf("podExit:%d", i), fmt.Sprintf("reconcilePod:%d", i), fmt.Sprintf("reconcilePodENI:%d", i))
	}
	evs = append(evs, "gcCR", "gcENI", "clock+61s", "clock+ttl-1s", "clock+ttl+1s", "clock+10m1s")
	if w.cfg.SplitGC && len(w.cfg.Kinds) == 1 {
		evs = append(evs, "gcCR/begin")
	}
	if w.cfg.Faults {
		evs = append(evs, "fault:Create:before", "fault:Attach:before", "fault:Detach:before", "fault:Delete:before", "fault:Delete:after", "fault:crCreate", "fault:podGet")
	}
	return evs
}

func sortedKeys(m map[string]bool) []string {
	var o []string
	for k := range m {
		o = append(o, k)
	}
	sort.Strings(o)
	return o
}
