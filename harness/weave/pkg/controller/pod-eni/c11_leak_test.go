//go:build verif

package podeni

import (
	"context"
	"fmt"
	"sort"
	"strings"
	"testing"
	"time"

	metav1 "k8s.io/apimachinery/pkg/apis/meta/v1"

	"github.com/AliyunContainerService/terway/internal/verif/ev"
	vrt "github.com/AliyunContainerService/terway/internal/verif/rt"
	"github.com/AliyunContainerService/terway/internal/verif/simcloud"
	aliyunClient "github.com/AliyunContainerService/terway/pkg/aliyun/client"
	"github.com/AliyunContainerService/terway/pkg/apis/network.alibabacloud.com/v1beta1"
	"github.com/AliyunContainerService/terway/types"
)

type leakArch struct {
	tags   string // ours | foreign-creator | other-cluster | none | creator-only
	age    time.Duration
	ref    bool
	member bool // InUse member interface (else Available secondary)
}

func (a leakArch) String() string {
	return fmt.Sprintf("%s/%v/ref=%v/member=%v", a.tags, a.age, a.ref, a.member)
}

func leakTags(kind string) map[string]string {
	switch kind {
	case "ours":
		return map[string]string{types.TagKeyClusterID: "c1", types.NetworkInterfaceTagCreatorKey: types.TagTerwayController}
	case "foreign-creator":
		return map[string]string{types.TagKeyClusterID: "c1", types.NetworkInterfaceTagCreatorKey: "someone-else"}
	case "other-cluster":
		return map[string]string{types.TagKeyClusterID: "c2", types.NetworkInterfaceTagCreatorKey: types.TagTerwayController}
	case "creator-only":
		return map[string]string{types.NetworkInterfaceTagCreatorKey: types.TagTerwayController}
	}
	return map[string]string{}
}

func TestVerifC11Leak(t *testing.T) {
	r := ev.New("C11", "leak-collector-populations")
	defer r.Flush()
	var archs []leakArch
	for _, tg := range []string{"ours", "foreign-creator", "other-cluster", "none", "creator-only"} {
		for _, age := range []time.Duration{10*time.Minute - time.Second, 10 * time.Minute, 10*time.Minute + time.Second, time.Hour} {
			for _, ref := range []bool{false, true} {
				for _, member := range []bool{false, true} {
					archs = append(archs, leakArch{tg, age, ref, member})
				}
			}
		}
	}
	maxN := 2
	r.Rule(fmt.Sprintf("every population of <=%d cloud interfaces over %d archetypes {tags: both ours / foreign creator / other cluster id / none / creator only} x {age 10min-1s, 10min, 10min+1s, 1h} x {referenced by a PodENI or not} x {Available secondary, InUse member} (+ all triples of the 'ours' archetypes in the thorough tier) through the REAL gcSecondaryENI/gcMemberENI on the virtual clock; oracle: the set of detach/delete calls == exactly the interfaces with both tags ours AND older than 10 minutes AND unreferenced, detach for attached members and delete for available ones", maxN, len(archs)))
	var pops [][]leakArch
	for _, a := range archs {
		pops = append(pops, []leakArch{a})
	}
	for _, a := range archs {
		for _, b := range archs {
			pops = append(pops, []leakArch{a, b})
		}
	}
	if ev.Thorough() {
		var ours []leakArch
		for _, a := range archs {
			if a.tags == "ours" || a.tags == "other-cluster" {
				ours = append(ours, a)
			}
		}
		for _, a := range ours {
			for _, b := range ours {
				for _, c := range ours {
					pops = append(pops, []leakArch{a, b, c})
				}
			}
		}
	}
	si, sn := ev.Shard()
	for pi, pop := range pops {
		if pi%sn != si {
			continue
		}
		pop := pop
		res := vrt.RunOnce("leak", 100000, func(x *vrt.Exec) {
			w := newPW(pwCfg{Trunk: true, Kinds: nil})
			vrt.Freeze(true)
			vrt.Advance(2 * time.Hour)
			want := map[string]string{}
			tolerated := map[string]bool{} // exactly at the boundary second: creation times have one-second granularity, either verdict is accepted
			var desc []string
			for i, a := range pop {
				e := &simcloud.CENI{Tags: leakTags(a.tags), Foreign: true}
				if a.member {
					e.Type, e.Status, e.InstanceID, e.TrunkID = aliyunClient.ENITypeMember, aliyunClient.ENIStatusInUse, "i-1", "eni-1"
				}
				ce := w.cloud.AddENI(e)
				ce.Created = vrt.Clock() - a.age
				if a.ref {
					_ = w.c.Create(context.Background(), &v1beta1.PodENI{ObjectMeta: metav1.ObjectMeta{Namespace: "ns", Name: fmt.Sprintf("ref%d", i)}, Spec: v1beta1.PodENISpec{Allocations: []v1beta1.Allocation{{ENI: v1beta1.ENI{ID: ce.ID}}}}})
				}
				desc = append(desc, ce.ID+"="+a.String())
				if a.tags == "ours" && a.age == 10*time.Minute && !a.ref {
					tolerated[ce.ID] = true
				}
				if a.tags == "ours" && a.age > 10*time.Minute && !a.ref {
					if a.member {
						want[ce.ID] = "Detach"
					} else {
						want[ce.ID] = "Delete"
					}
				}
			}
			mark := len(w.cloud.Log)
			w.ec.gcSecondaryENI(context.Background())
			w.ec.gcMemberENI(context.Background())
			vrt.WaitQuiescent()
			got := map[string]string{}
			for _, c := range w.cloud.Log[mark:] {
				if c.Op == "Detach" || c.Op == "Delete" {
					got[c.ENI] += c.Op
				}
			}
			for id, op := range got {
				if tolerated[id] {
					continue
				}
				if want[id] == "" {
					cls := "?"
					for i, a := range pop {
						if strings.HasPrefix(desc[i], id+"=") {
							switch {
							case a.tags != "ours":
								cls = "foreign-tags:" + a.tags
							case a.ref:
								cls = "referenced"
							default:
								cls = "too-young"
							}
						}
					}
					x.Failf("C11/leak-gc-reaped-wrong-interface/"+cls, "%s of %s; population %v", op, id, desc)
				} else if op != want[id] {
					x.Failf("C11/leak-gc-wrong-verb", "%s of %s, expected %s; population %v", op, id, want[id], desc)
				}
			}
			for id, op := range want {
				if got[id] == "" {
					x.Failf("C11/leak-gc-missed-leaked-interface", "no %s for %s (ours, stale, unreferenced); population %v", op, id, desc)
				}
			}
			var g []string
			for id, op := range got {
				g = append(g, id+":"+op)
			}
			sort.Strings(g)
			x.Outcome(strings.Join(g, ","))
		})
		if res.HarnessErr != "" {
			t.Fatalf("%v: %s", pop, res.HarnessErr)
		}
		for _, v := range res.Violations {
			r.Violate(strings.SplitN(v.Sig, "::", 2)[1], v.Detail, fmt.Sprint(pop))
		}
		key := ""
		for o := range res.Outcomes {
			key = o
		}
		r.Case(fmt.Sprintf("%d/%s", len(pop), key), map[string]any{"population": fmt.Sprint(pop), "calls": key})
	}
}
