//go:build verif

package node

import (
	"encoding/json"
	"fmt"
	"os"
	"strings"
	"testing"
	"time"

	"github.com/AliyunContainerService/terway/internal/verif/bfs"
	"github.com/AliyunContainerService/terway/internal/verif/ev"
	vrt "github.com/AliyunContainerService/terway/internal/verif/rt"
)

func nwConfigs(thorough bool) []nwCfg {
	var out []nwCfg
	stacks := [][2]bool{{true, false}, {true, true}, {false, true}}
	for _, st := range stacks {
		for _, feat := range [][3]bool{{false, false, false}, {true, false, false}, {false, true, true}, {false, true, false}} {
			for _, per := range []int{2, 3} {
				for _, ad := range []int{2, 3} {
					for _, pool := range [][2]int{{0, 0}, {0, 1}, {1, 2}} {
						if !thorough {
							// quick: every value of every parameter occurs, not the full product
							if (per == 2) != (ad == 3) {
								continue
							}
							if !st[0] && (feat[0] || feat[1] || per != 2) {
								continue // quick: IPv6-only nodes in the plain flavour only
							}
							if feat[0] && pool == [2]int{1, 2} || feat[1] && pool == [2]int{0, 1} {
								continue
							}
						}
						if (feat[0] || feat[1]) && ad < 3 {
							continue // a trunk/RDMA interface plus at least one secondary slot
						}
						out = append(out, nwCfg{V4: st[0], V6: st[1], Trunk: feat[0], ERDMA: feat[1], RDMAPod: feat[2], PerAdapter: per, Adapters: ad, MinPool: pool[0], MaxPool: pool[1], Pods: 2})
					}
				}
			}
		}
	}
	// three pods on an IPv6-only node with two addresses per interface: after two of them leave, one interface still
	// serves a pod while the idle surplus is larger than that interface (the whole-interface release path of the trimmer)
	out = append(out, nwCfg{V4: false, V6: true, PerAdapter: 2, Adapters: 3, MinPool: 0, MaxPool: 0, Pods: 3})
	return out
}

func TestVerifC02(t *testing.T) {
	r := ev.New("C02", "node-ipam-bfs")
	defer r.Flush()
	if nwReplay(t, r, func(cfg nwCfg) bfs.World { return &c02World{newNW(cfg), nil} }, false) {
		return
	}
	depth := 4
	if ev.Thorough() {
		depth = 6
	}
	r.Rule(fmt.Sprintf("breadth-first search to depth %d, from the empty cluster and from two populated roots (pods bound and reporting their addresses; pods bound, nothing reported yet), over event histories {podCreate, podReportIP (take-over input), podDelete(+agent report), reconcile, reconcile with reversed map-iteration order, reconcile whose status update fails, controller restart, clock past gc / full-sync period, cloud drift (remove address, detach interface)}; every transition runs the REAL ReconcileNode.Reconcile on a fake API server + simulated cloud (fresh world per state, replayed); configurations: IP stack x trunk x RDMA (with/without an RDMA pod) x addresses per adapter x adapters x pool (min,max); invariants on the Node CR after every transition (one pod per address, one v4+one v6 per pod, no address under two interfaces, reported address = bound address) and on bindings created by the transition (valid address, in-use interface, same interface for both families, RDMA class)", depth))
	cfgs := nwConfigs(ev.Thorough())
	si, sn := ev.Shard()
	dl := ev.Deadline(150*time.Second, 40*time.Minute)
	for i, cfg := range cfgs {
		if i%sn != si {
			continue
		}
		cfg := cfg
		var cur *nw
		// roots: the empty cluster and a populated one (two bound pods that report their addresses, pool filled)
		roots := [][]string{{}, {"podCreate:0", "podCreate:1", "reconcile", "reconcile", "podReportIP:0", "podReportIP:1"},
			// bound by the controller, sandbox not set up yet (nothing reported)
			{"podCreate:0", "podCreate:1", "reconcile", "reconcile"}}
		res := bfs.Run(bfs.Config{Name: cfg.String(), MaxDepth: depth, Deadline: dl, Roots: roots, Build: func(x *vrt.Exec) bfs.World {
			cur = newNW(cfg)
			return &c02World{cur, x}
		}})
		nwReportBFS(r, t, cfg.String(), res)
		if time.Now().After(dl) {
			r.NotExhaustive()
			break
		}
	}
}

type c02World struct {
	*nw
	x *vrt.Exec
}

func (w *c02World) Apply(x *vrt.Exec, evn string) {
	w.nw.Apply(x, evn)
	w.nw.checkC02(x, evn)
}

// nwReplay prints the state after every event of a recorded history (vcheck --replay).
func nwReplay(t *testing.T, r *ev.Rec, mk func(cfg nwCfg) bfs.World, closure bool) bool {
	rp := os.Getenv("VERIF_REPLAY")
	if rp == "" {
		return false
	}
	if si, _ := ev.Shard(); si != 0 {
		return true
	}
	b, err := os.ReadFile(rp)
	if err != nil {
		t.Fatal(err)
	}
	var doc struct {
		Replay struct {
			Config  string   `json:"config"`
			History []string `json:"history"`
		} `json:"replay"`
	}
	if err := json.Unmarshal(b, &doc); err != nil {
		t.Fatal(err)
	}
	for _, cfg := range nwConfigs(true) {
		if cfg.String() != doc.Replay.Config {
			continue
		}
		res := vrt.RunOnce("replay", 400000, func(x *vrt.Exec) {
			w := mk(cfg)
			vrt.Freeze(true)
			for _, e := range doc.Replay.History {
				w.Apply(x, e)
				fmt.Printf("--- after %s\n%s\n", e, w.Canon())
			}
			if closure {
				w.(*c08World).closureC08(x, doc.Replay.History, true)
				fmt.Printf("--- after closure\n%s\ncloud log: %v\n", w.Canon(), w.(*c08World).cloud.LogStrings(0))
			}
		})
		for _, v := range res.Violations {
			fmt.Printf("VIOLATION-IN-REPLAY %s\n%s\n", v.Sig, v.Detail)
			r.Violate(strings.SplitN(v.Sig, "::", 2)[1], v.Detail, doc.Replay)
		}
		r.Case("replay", doc.Replay)
		r.Distinct("replay2")
	}
	return true
}

func TestVerifC08(t *testing.T) {
	r := ev.New("C08", "node-ipam-quota-convergence")
	defer r.Flush()
	if nwReplay(t, r, func(cfg nwCfg) bfs.World { return &c08World{newNW(cfg)} }, true) {
		return
	}
	depth := 4
	if ev.Thorough() {
		depth = 6
	}
	r.Rule(fmt.Sprintf("breadth-first search to depth %d, from the empty cluster and from an initialised node, over {podCreate, podDelete, reconcile, reconcile with failing status update, clock events, one-shot fault on the next Create/Attach/WaitFor/Assign/UnAssign/Detach/Delete/Describe call (before effect, quota / exhaustion / throttling codes, timeout after effect)} with the REAL ReconcileNode; on every transition the cloud call log is checked against the node's declared limits; from EVERY explored state a closure run (faults off, healthy reconcile loop) must reach a fixed point with every eligible pod bound, idle within [min,max], no further cloud mutation or status write, and — after the next full synchronisation — record == cloud with no interface leaked", depth))
	cfgs := nwConfigs(ev.Thorough())
	si, sn := ev.Shard()
	dl := ev.Deadline(150*time.Second, 40*time.Minute)
	for i, cfg := range cfgs {
		if i%sn != si {
			continue
		}
		cfg := cfg
		res := bfs.Run(bfs.Config{Name: cfg.String(), MaxDepth: depth, Deadline: dl,
			// roots: the empty cluster and a node the controller has already initialised (its first interface settled)
			Roots: c08Roots(cfg),
			Build: func(x *vrt.Exec) bfs.World { return &c08World{newNW(cfg)} },
			OnState: func(x *vrt.Exec, w bfs.World, hist []string) {
				af := false
				for _, h := range hist {
					af = af || strings.HasPrefix(h, "fault:")
				}
				w.(*c08World).closureC08(x, hist, af)
			}})
		nwReportBFS(r, t, cfg.String(), res)
		if time.Now().After(dl) {
			r.NotExhaustive()
			break
		}
	}
}

type c08World struct{ *nw }

func (w *c08World) Apply(x *vrt.Exec, evn string) {
	w.nw.Apply(x, evn)
	w.nw.checkC08Calls(x)
}

func (w *c08World) Enabled() []string {
	var evs []string
	for i := 0; i < w.cfg.Pods; i++ {
		if w.pod(i) == nil {
			evs = append(evs, fmt.Sprintf("podCreate:%d", i))
		} else {
			evs = append(evs, fmt.Sprintf("podDelete:%d", i))
		}
	}
	evs = append(evs, "reconcile", "reconcile/updateFails", "clock+gc", "clock+fullsync")
	if len(w.cloud.Armed) == 0 {
		for _, f := range []string{"Create:before", "Create:eni-limit", "Create:vsw-exhausted", "Create:after", "Attach:before", "Attach:after", "WaitFor:timeout",
			"Assign4:quota", "Assign4:after", "Assign6:after", "UnAssign4:after", "UnAssign4:before", "Detach:before", "Delete:before", "Delete:after", "Describe:error"} {
			if strings.HasPrefix(f, "Assign6") && !w.cfg.V6 {
				continue
			}
			evs = append(evs, "fault:"+f)
		}
	}
	return evs
}

func c08Roots(cfg nwCfg) [][]string {
	roots := [][]string{{}, {"reconcile", "reconcile"}}
	if cfg.Pods >= 3 {
		roots = append(roots, []string{"podCreate:0", "podCreate:1", "podCreate:2", "reconcile", "reconcile", "reconcile"})
	}
	return roots
}
