//go:build verif

package node

import (
	"context"
	"encoding/json"
	"fmt"
	"sort"
	"strings"
	"testing"
	"time"

	"github.com/go-logr/logr"
	"go.opentelemetry.io/otel/trace/noop"
	corev1 "k8s.io/api/core/v1"
	"k8s.io/apimachinery/pkg/api/resource"
	metav1 "k8s.io/apimachinery/pkg/apis/meta/v1"
	k8stypes "k8s.io/apimachinery/pkg/types"
	"k8s.io/client-go/tools/record"
	"sigs.k8s.io/controller-runtime/pkg/client"
	"sigs.k8s.io/controller-runtime/pkg/client/fake"
	"sigs.k8s.io/controller-runtime/pkg/client/interceptor"
	logf "sigs.k8s.io/controller-runtime/pkg/log"
	"sigs.k8s.io/controller-runtime/pkg/reconcile"

	"github.com/AliyunContainerService/terway/deviceplugin"
	"github.com/AliyunContainerService/terway/internal/verif/bfs"
	"github.com/AliyunContainerService/terway/internal/verif/ev"
	vrt "github.com/AliyunContainerService/terway/internal/verif/rt"
	"github.com/AliyunContainerService/terway/internal/verif/simcloud"
	aliyunClient "github.com/AliyunContainerService/terway/pkg/aliyun/client"
	networkv1beta1 "github.com/AliyunContainerService/terway/pkg/apis/network.alibabacloud.com/v1beta1"
	"github.com/AliyunContainerService/terway/pkg/vswitch"
	"github.com/AliyunContainerService/terway/types"
)

func init() { logf.SetLogger(logr.Discard()) }

const nwNode = "node-1"

type nwCfg struct {
	V4, V6       bool
	Trunk, ERDMA bool
	PerAdapter   int
	Adapters     int // incl. the primary
	MinPool      int
	MaxPool      int
	Pods         int
	RDMAPod      bool // pod 0 requires ERDMA
}

func (c nwCfg) String() string {
	st := "v4"
	if c.V4 && c.V6 {
		st = "dual"
	} else if c.V6 {
		st = "v6"
	}
	return fmt.Sprintf("%s trunk=%v erdma=%v perAdapter=%d adapters=%d pool=%d..%d pods=%d rdmaPod=%v", st, c.Trunk, c.ERDMA, c.PerAdapter, c.Adapters, c.MinPool, c.MaxPool, c.Pods, c.RDMAPod)
}

// nw is the node-controller world: the real ReconcileNode on a fake API server and the simulated cloud.
type nw struct {
	cfg        nwCfg
	c          client.Client
	cloud      *simcloud.Cluster
	r          *ReconcileNode
	failUpdate bool // next Node status update fails
	gen        map[int]int
	events     []string
	prevBind   map[string]string // podID/family -> "eni|ip" (bindings before the current transition)
	prevKnown  map[string][2]int // interface -> addresses {v4, v6} the Node CR recorded before the current transition
	prevCloud  map[string][2]int // interface -> addresses {v4, v6} the cloud held before the current transition
	prevOwned  map[string][][3]string // interface -> {podID, podUID, address} bound in the Node CR before the current transition
	logMark    int
	noDaemon   bool
	xformed    bool
}

func newNW(cfg nwCfg) *nw {
	w := &nw{cfg: cfg, cloud: simcloud.NewCluster(), gen: map[int]int{}, prevBind: map[string]string{}}
	w.cloud.LimitV4, w.cloud.LimitV6 = cfg.PerAdapter, cfg.PerAdapter // the cloud enforces the instance type's per-interface quota itself
	flavor := []networkv1beta1.Flavor{}
	sec := cfg.Adapters - 1
	if cfg.Trunk {
		flavor = append(flavor, networkv1beta1.Flavor{NetworkInterfaceType: networkv1beta1.ENITypeTrunk, NetworkInterfaceTrafficMode: networkv1beta1.NetworkInterfaceTrafficModeStandard, Count: 1})
		sec--
	}
	if cfg.ERDMA {
		flavor = append(flavor, networkv1beta1.Flavor{NetworkInterfaceType: networkv1beta1.ENITypeSecondary, NetworkInterfaceTrafficMode: networkv1beta1.NetworkInterfaceTrafficModeHighPerformance, Count: 1})
		sec--
	}
	if sec > 0 {
		flavor = append(flavor, networkv1beta1.Flavor{NetworkInterfaceType: networkv1beta1.ENITypeSecondary, NetworkInterfaceTrafficMode: networkv1beta1.NetworkInterfaceTrafficModeStandard, Count: sec})
	}
	node := &networkv1beta1.Node{ObjectMeta: metav1.ObjectMeta{Name: nwNode}, Spec: networkv1beta1.NodeSpec{
		NodeMetadata: networkv1beta1.NodeMetadata{RegionID: "r1", InstanceType: "ecs.x", InstanceID: "i-1", ZoneID: "z1"},
		NodeCap:      networkv1beta1.NodeCap{Adapters: cfg.Adapters, TotalAdapters: cfg.Adapters, IPv4PerAdapter: cfg.PerAdapter, IPv6PerAdapter: cfg.PerAdapter, EriQuantity: 1},
		ENISpec: &networkv1beta1.ENISpec{VSwitchOptions: []string{"vsw-1"}, SecurityGroupIDs: []string{"sg-1"}, EnableIPv4: cfg.V4, EnableIPv6: cfg.V6, EnableTrunk: cfg.Trunk, EnableERDMA: cfg.ERDMA,
			VSwitchSelectPolicy: networkv1beta1.VSwitchSelectionPolicyOrdered},
		Pool:   &networkv1beta1.PoolSpec{MinPoolSize: cfg.MinPool, MaxPoolSize: cfg.MaxPool},
		Flavor: flavor,
	}}
	k8sNode := &corev1.Node{ObjectMeta: metav1.ObjectMeta{Name: nwNode}}
	rtm := &networkv1beta1.NodeRuntime{ObjectMeta: metav1.ObjectMeta{Name: nwNode}}
	w.c = fake.NewClientBuilder().WithScheme(types.Scheme).
		WithStatusSubresource(&networkv1beta1.Node{}, &networkv1beta1.NodeRuntime{}, &corev1.Node{}).
		WithIndex(&corev1.Pod{}, "spec.nodeName", func(o client.Object) []string { return []string{o.(*corev1.Pod).Spec.NodeName} }).
		WithObjects(node, k8sNode, rtm).
		WithInterceptorFuncs(interceptor.Funcs{
			SubResourceUpdate: func(ctx context.Context, c client.Client, sub string, obj client.Object, opts ...client.SubResourceUpdateOption) error {
				if _, ok := obj.(*networkv1beta1.Node); ok && w.failUpdate {
					w.failUpdate = false
					return fmt.Errorf("simulated API server write failure")
				}
				return c.SubResource(sub).Update(ctx, obj, opts...)
			},
		}).Build()
	// the instance's primary interface exists in the cloud and is ignored by the controller
	w.cloud.AddENI(&simcloud.CENI{Type: aliyunClient.ENITypePrimary, Status: aliyunClient.ENIStatusInUse, InstanceID: "i-1", Foreign: true})
	w.restart()
	return w
}

func (w *nw) restart() {
	sp, _ := vswitch.NewSwitchPool(100, "10m")
	w.r = &ReconcileNode{client: w.c, scheme: types.Scheme, record: &record.FakeRecorder{}, aliyun: w.cloud, vswpool: sp,
		fullSyncNodePeriod: 10 * time.Minute, gcPeriod: time.Minute, tracer: noop.NewTracerProvider().Tracer(""), eniBatchSize: 5}
}

func (w *nw) node() *networkv1beta1.Node {
	n := &networkv1beta1.Node{}
	if err := w.c.Get(context.Background(), client.ObjectKey{Name: nwNode}, n); err != nil {
		panic(err)
	}
	return n
}

func (w *nw) podName(i int) string { return fmt.Sprintf("p%d", i) }

func (w *nw) pod(i int) *corev1.Pod {
	p := &corev1.Pod{}
	if err := w.c.Get(context.Background(), client.ObjectKey{Namespace: "ns", Name: w.podName(i)}, p); err != nil {
		return nil
	}
	return p
}

// podInstanceExists: the pod object podID (ns/name) exists and, when the record carries a UID, it is that instance.
func (w *nw) podInstanceExists(podID, uid string) bool {
	f := strings.SplitN(podID, "/", 2)
	if len(f) != 2 {
		return false
	}
	p := &corev1.Pod{}
	if err := w.c.Get(context.Background(), client.ObjectKey{Namespace: f[0], Name: f[1]}, p); err != nil {
		return false
	}
	return uid == "" || string(p.UID) == uid
}

// bindings: podID -> family -> "eni|ip"
func nwBindings(n *networkv1beta1.Node) map[string]string {
	out := map[string]string{}
	for id, e := range n.Status.NetworkInterfaces {
		for ip, v := range e.IPv4 {
			if v.PodID != "" {
				out[v.PodID+"/4/"+ip] = id
			}
		}
		for ip, v := range e.IPv6 {
			if v.PodID != "" {
				out[v.PodID+"/6/"+ip] = id
			}
		}
	}
	return out
}

func (w *nw) reconcile(x *vrt.Exec, order int) {
	vrt.SetOrderMode(order)
	_, err := w.r.Reconcile(context.Background(), reconcile.Request{NamespacedName: k8stypes.NamespacedName{Name: nwNode}})
	vrt.SetOrderMode(0)
	_ = err
	vrt.Advance(2 * time.Second) // past the 1 s reconcile throttle
}

func (w *nw) Enabled() []string {
	var evs []string
	for i := 0; i < w.cfg.Pods; i++ {
		if w.pod(i) == nil {
			evs = append(evs, fmt.Sprintf("podCreate:%d", i))
		} else {
			evs = append(evs, fmt.Sprintf("podDelete:%d", i), fmt.Sprintf("podReportIP:%d", i))
		}
	}
	evs = append(evs, "reconcile", "reconcile/rev", "reconcile/updateFails", "restart", "clock+gc", "clock+fullsync", "drift:removeIP", "drift:detachENI")
	if !w.xformed && len(w.node().Status.NetworkInterfaces) > 0 {
		// take-over roots: the record as an older version (or the node agent's IPAM) would have left it
		evs = append(evs, "xform:dropUIDs", "xform:dropBindings", "xform:markIdleDeleting", "xform:dropENI")
		if w.cfg.V4 && w.cfg.V6 {
			evs = append(evs, "xform:dropV6Bindings", "xform:dropV6Reports", "xform:v4OnlyPast")
		}
	}
	return evs
}

func (w *nw) Apply(x *vrt.Exec, evn string) {
	w.events = append(w.events, evn)
	before := w.node()
	w.prevBind = nwBindings(before)
	w.prevKnown = map[string][2]int{}
	if before != nil {
		for id, e := range before.Status.NetworkInterfaces {
			w.prevKnown[id] = [2]int{len(e.IPv4), len(e.IPv6)}
		}
	}
	w.prevOwned = map[string][][3]string{}
	if before != nil {
		for id, e := range before.Status.NetworkInterfaces {
			for _, m := range []map[string]*networkv1beta1.IP{e.IPv4, e.IPv6} {
				for ip, v := range m {
					if v != nil && v.PodID != "" {
						w.prevOwned[id] = append(w.prevOwned[id], [3]string{v.PodID, v.PodUID, ip})
					}
				}
			}
		}
	}
	w.prevCloud = map[string][2]int{}
	for id, e := range w.cloud.ENIs {
		if !e.Deleted {
			w.prevCloud[id] = [2]int{len(e.V4), len(e.V6)}
		}
	}
	w.logMark = len(w.cloud.Log)
	f := strings.Split(evn, ":")
	ctx := context.Background()
	switch f[0] {
	case "podCreate":
		var i int
		fmt.Sscan(f[1], &i)
		w.gen[i]++
		p := &corev1.Pod{ObjectMeta: metav1.ObjectMeta{Namespace: "ns", Name: w.podName(i), UID: k8stypes.UID(fmt.Sprintf("uid-%d-%d", i, w.gen[i]))},
			Spec: corev1.PodSpec{NodeName: nwNode, Containers: []corev1.Container{{Name: "c"}}}}
		if w.cfg.RDMAPod && i == 0 {
			p.Spec.Containers[0].Resources.Limits = corev1.ResourceList{corev1.ResourceName(deviceplugin.ERDMAResName): resource.MustParse("1")}
		}
		_ = w.c.Create(ctx, p)
	case "podDelete":
		var i int
		fmt.Sscan(f[1], &i)
		if p := w.pod(i); p != nil {
			// kubelet path: CNI DEL is processed and reported by the node agent, then the object goes away
			if !w.noDaemon {
				w.reportDeleted(string(p.UID), "ns/"+p.Name)
			}
			_ = w.c.Delete(ctx, p)
		}
	case "podReportIP":
		var i int
		fmt.Sscan(f[1], &i)
		if p := w.pod(i); p != nil {
			n := w.node()
			var ips []corev1.PodIP
			for id := range n.Status.NetworkInterfaces {
				_ = id
			}
			for key := range nwBindings(n) {
				parts := strings.Split(key, "/")
				if parts[0]+"/"+parts[1] == "ns/"+p.Name {
					ips = append(ips, corev1.PodIP{IP: parts[3]})
				}
			}
			sort.Slice(ips, func(a, b int) bool { return ips[a].IP < ips[b].IP })
			if len(p.Status.PodIPs) > 0 {
				// the addresses a pod reports are those its sandbox was set up with: they never change afterwards
				// (a re-report that DROPS an address the record lost meanwhile is not something a kubelet does)
				break
			}
			p.Status.PodIPs = ips
			if len(ips) > 0 {
				p.Status.PodIP = ips[0].IP
			}
			_ = w.c.Status().Update(ctx, p)
		}
	case "reconcile":
		w.reconcile(x, 0)
	case "reconcile/rev":
		w.reconcile(x, 1)
	case "reconcile/updateFails":
		w.failUpdate = true
		w.reconcile(x, 0)
		w.failUpdate = false
	case "restart":
		w.restart()
	case "clock+gc":
		vrt.Advance(61 * time.Second)
	case "clock+fullsync":
		vrt.Advance(21 * time.Minute)
	case "drift":
		n := w.node()
		var ids []string
		for id := range n.Status.NetworkInterfaces {
			ids = append(ids, id)
		}
		sort.Strings(ids)
		for _, id := range ids {
			ce := w.cloud.ENIs[id]
			if ce == nil || ce.Deleted {
				continue
			}
			if f[1] == "removeIP" {
				if w.cfg.V4 && len(ce.V4) > 1 {
					ce.V4 = ce.V4[:len(ce.V4)-1]
					break
				} else if !w.cfg.V4 && len(ce.V6) > 0 {
					ce.V6 = ce.V6[:len(ce.V6)-1]
					break
				}
			} else if ce.Status == aliyunClient.ENIStatusInUse && ce.Type == aliyunClient.ENITypeSecondary {
				ce.Status, ce.InstanceID = aliyunClient.ENIStatusAvailable, ""
				break
			}
		}
	case "fault":
		w.cloud.Armed[f[1]] = f[2]
	case "xform":
		w.xformed = true
		n := w.node()
		var ids []string
		for id := range n.Status.NetworkInterfaces {
			ids = append(ids, id)
		}
		sort.Strings(ids)
		switch f[1] {
		case "dropUIDs":
			for _, e := range n.Status.NetworkInterfaces {
				for _, v := range e.IPv4 {
					v.PodUID = ""
				}
				for _, v := range e.IPv6 {
					v.PodUID = ""
				}
			}
		case "dropBindings", "dropV6Bindings":
			for _, e := range n.Status.NetworkInterfaces {
				if f[1] == "dropBindings" {
					for _, v := range e.IPv4 {
						v.PodID, v.PodUID = "", ""
					}
				}
				for _, v := range e.IPv6 {
					v.PodID, v.PodUID = "", ""
				}
			}
		case "dropV6Reports":
			// pods report only their IPv4 (they were set up by an IPv4-only version) and the record has no IPv6 binding for them
			for _, e := range n.Status.NetworkInterfaces {
				for _, v := range e.IPv6 {
					v.PodID, v.PodUID = "", ""
				}
			}
			for i := 0; i < w.cfg.Pods; i++ {
				if p := w.pod(i); p != nil {
					var keep []corev1.PodIP
					for _, ip := range p.Status.PodIPs {
						if !strings.Contains(ip.IP, ":") {
							keep = append(keep, ip)
						}
					}
					p.Status.PodIPs = keep
					_ = w.c.Status().Update(ctx, p)
				}
			}
		case "v4OnlyPast":
			// the interfaces that carry pods were set up by an IPv4-only version: no IPv6 on them, pods report IPv4 only
			for _, id := range ids {
				e := n.Status.NetworkInterfaces[id]
				_, inUse := IPUsage(e.IPv4)
				if inUse == 0 {
					continue
				}
				e.IPv6 = nil
				if ce := w.cloud.ENIs[id]; ce != nil {
					ce.V6 = nil
				}
			}
			for i := 0; i < w.cfg.Pods; i++ {
				if p := w.pod(i); p != nil {
					var keep []corev1.PodIP
					for _, ip := range p.Status.PodIPs {
						if !strings.Contains(ip.IP, ":") {
							keep = append(keep, ip)
						}
					}
					p.Status.PodIPs = keep
					_ = w.c.Status().Update(ctx, p)
				}
			}
		case "markIdleDeleting":
		outer:
			for _, id := range ids {
				e := n.Status.NetworkInterfaces[id]
				var ks []string
				for k := range e.IPv4 {
					ks = append(ks, k)
				}
				sort.Strings(ks)
				for _, k := range ks {
					if v := e.IPv4[k]; v.PodID == "" && !v.Primary && v.Status == networkv1beta1.IPStatusValid {
						v.Status = networkv1beta1.IPStatusDeleting
						break outer
					}
				}
			}
		case "dropENI":
			if len(ids) > 0 {
				delete(n.Status.NetworkInterfaces, ids[len(ids)-1])
			}
		}
		_ = w.c.Status().Update(ctx, n)
	}
}

// reportDeleted is what the node agent writes after it processed the pod's CNI DEL.
func (w *nw) reportDeleted(uid, podID string) {
	rtm := &networkv1beta1.NodeRuntime{}
	if err := w.c.Get(context.Background(), client.ObjectKey{Name: nwNode}, rtm); err != nil {
		return
	}
	if rtm.Status.Pods == nil {
		rtm.Status.Pods = map[string]*networkv1beta1.RuntimePodStatus{}
	}
	rtm.Status.Pods[uid] = &networkv1beta1.RuntimePodStatus{PodID: podID, Status: map[networkv1beta1.CNIStatus]*networkv1beta1.CNIStatusInfo{
		networkv1beta1.CNIStatusDeleted: {LastUpdateTime: vrt.MetaNow()}}}
	_ = w.c.Status().Update(context.Background(), rtm)
}

// Canon: the property-relevant projection — Node CR status (addresses renamed by first occurrence),
// pods (exists, generation parity irrelevant, reported IPs), cloud, armed faults, cache presence, coarse clock relations.
func (w *nw) Canon() string {
	n := w.node()
	type ipc struct{ IP, St, Pod, UID string }
	var parts []string
	var ids []string
	for id := range n.Status.NetworkInterfaces {
		ids = append(ids, id)
	}
	sort.Strings(ids)
	for _, id := range ids {
		e := n.Status.NetworkInterfaces[id]
		var l []string
		add := func(m map[string]*networkv1beta1.IP) {
			var ks []string
			for k := range m {
				ks = append(ks, k)
			}
			sort.Strings(ks)
			for _, k := range ks {
				v := m[k]
				l = append(l, fmt.Sprintf("%s:%s:%s:%s", k, v.Status, v.PodID, v.PodUID))
			}
		}
		add(e.IPv4)
		add(e.IPv6)
		parts = append(parts, fmt.Sprintf("%s{%s %s %s %v}", id, e.Status, e.NetworkInterfaceType, e.NetworkInterfaceTrafficMode, l))
	}
	var pods []string
	for i := 0; i < w.cfg.Pods; i++ {
		if p := w.pod(i); p != nil {
			pods = append(pods, fmt.Sprintf("%s[%s %v]", p.Name, p.UID, p.Status.PodIPs))
		}
	}
	rtm := &networkv1beta1.NodeRuntime{}
	_ = w.c.Get(context.Background(), client.ObjectKey{Name: nwNode}, rtm)
	var rts []string
	for uid, s := range rtm.Status.Pods {
		st, _, _ := finalStatus(s)
		rts = append(rts, uid+"="+st)
	}
	sort.Strings(rts)
	_, cached := w.r.cache.Load(nwNode)
	now := vrt.MetaNow()
	syncDue := n.Status.NextSyncOpenAPITime.Before(&now)
	gcDue := true
	need := false
	if v, ok := w.r.cache.Load(nwNode); ok {
		st := v.(*NodeStatus)
		gcDue = !st.LastGCTime.Add(w.r.gcPeriod).After(vrt.TimeNow())
		need = st.NeedSyncOpenAPI.Load()
	}
	armed, _ := json.Marshal(w.cloud.Armed)
	return fmt.Sprintf("CR:%v PODS:%v RT:%v CLOUD:%s cached=%v syncDue=%v gcDue=%v needSync=%v armed=%s xf=%v", parts, pods, rts, w.cloud.Canon(), cached, syncDue, gcDue, need, armed, w.xformed)
}

func finalStatus(s *networkv1beta1.RuntimePodStatus) (string, time.Time, bool) {
	var best networkv1beta1.CNIStatus
	var t time.Time
	for k, v := range s.Status {
		if v != nil && (best == "" || v.LastUpdateTime.Time.After(t)) {
			best, t = k, v.LastUpdateTime.Time
		}
	}
	return string(best), t, best != ""
}

// ---------------------------------------------------------------- C02 invariants

func (w *nw) checkC02(x *vrt.Exec, evn string) {
	n := w.node()
	hist := strings.Join(w.events, " ; ")
	// state invariants
	seenIP := map[string]string{}
	podV4, podV6 := map[string][]string{}, map[string][]string{}
	for id, e := range n.Status.NetworkInterfaces {
		for ip, v := range e.IPv4 {
			if o, dup := seenIP[ip]; dup && o != id {
				x.Failf("C02/address-under-two-enis", "address %s is recorded under %s and %s; %s", ip, o, id, hist)
			}
			seenIP[ip] = id
			if v.PodID != "" {
				podV4[v.PodID] = append(podV4[v.PodID], ip+"@"+id)
			}
		}
		for ip, v := range e.IPv6 {
			if o, dup := seenIP[ip]; dup && o != id {
				x.Failf("C02/address-under-two-enis", "address %s is recorded under %s and %s; %s", ip, o, id, hist)
			}
			seenIP[ip] = id
			if v.PodID != "" {
				podV6[v.PodID] = append(podV6[v.PodID], ip+"@"+id)
			}
		}
	}
	for p, l := range podV4 {
		if len(l) > 1 {
			sort.Strings(l)
			x.Failf("C02/pod-bound-to-two-ipv4", "pod %s is bound to %v; %s", p, l, hist)
		}
	}
	for p, l := range podV6 {
		if len(l) > 1 {
			sort.Strings(l)
			x.Failf("C02/pod-bound-to-two-ipv6", "pod %s is bound to %v; %s", p, l, hist)
		}
	}
	// a pod that reports x is bound to x or to nothing
	for i := 0; i < w.cfg.Pods; i++ {
		p := w.pod(i)
		if p == nil {
			continue
		}
		for _, pip := range p.Status.PodIPs {
			fam, m := "4", podV4
			if strings.Contains(pip.IP, ":") {
				fam, m = "6", podV6
			}
			for _, b := range m["ns/"+p.Name] {
				if !strings.HasPrefix(b, pip.IP+"@") {
					x.Failf("C02/re-adopted-onto-another-address", "pod %s reports IPv%s %s but the record binds it to %s; %s", p.Name, fam, pip.IP, b, hist)
				}
			}
		}
	}
	// transition invariants: bindings created by this transition
	if !strings.HasPrefix(evn, "reconcile") {
		return
	}
	now := nwBindings(n)
	for key, eni := range now {
		if w.prevBind[key] == eni {
			continue
		}
		parts := strings.Split(key, "/")
		podID, fam, ip := parts[0]+"/"+parts[1], parts[2], parts[3]
		e := n.Status.NetworkInterfaces[eni]
		var v *networkv1beta1.IP
		if fam == "4" {
			v = e.IPv4[ip]
		} else {
			v = e.IPv6[ip]
		}
		reported := false
		var pod *corev1.Pod
		for i := 0; i < w.cfg.Pods; i++ {
			if p := w.pod(i); p != nil && "ns/"+p.Name == podID {
				pod = p
				for _, pip := range p.Status.PodIPs {
					if pip.IP == ip {
						reported = true
					}
				}
			}
		}
		if !reported {
			if v.Status != networkv1beta1.IPStatusValid {
				x.Failf("C02/bound-to-address-not-valid", "%s newly bound to %s whose status is %s; %s", podID, ip, v.Status, hist)
			}
			if e.Status != aliyunClient.ENIStatusInUse {
				x.Failf("C02/bound-on-eni-not-in-use", "%s newly bound to %s on %s whose status is %s; %s", podID, ip, eni, e.Status, hist)
			}
		}
		if pod != nil && w.cfg.ERDMA {
			wantRDMA := w.cfg.RDMAPod && pod.Name == w.podName(0)
			isRDMA := e.NetworkInterfaceTrafficMode == networkv1beta1.NetworkInterfaceTrafficModeHighPerformance
			if wantRDMA != isRDMA && !reported {
				x.Failf("C02/rdma-class-mismatch", "pod %s (requires RDMA: %v) newly bound on %s (RDMA interface: %v); %s", podID, wantRDMA, eni, isRDMA, hist)
			}
		}
	}
	// dual stack: both families of a pod on one interface (for pods that got a binding in this transition)
	if w.cfg.V4 && w.cfg.V6 {
		for p, l4 := range podV4 {
			l6 := podV6[p]
			if len(l4) == 1 && len(l6) == 1 {
				e4, e6 := l4[0][strings.Index(l4[0], "@")+1:], l6[0][strings.Index(l6[0], "@")+1:]
				created := false
				for key, eni := range now {
					if strings.HasPrefix(key, p+"/") && w.prevBind[key] != eni {
						created = true
					}
				}
				if created && e4 != e6 {
					x.Failf("C02/dual-stack-on-two-enis", "pod %s: IPv4 %s and IPv6 %s are on different interfaces; %s", p, l4[0], l6[0], hist)
				}
			}
		}
	}
}

// ---------------------------------------------------------------- C08 invariants

func (w *nw) checkC08Calls(x *vrt.Exec) {
	n := w.node()
	hist := strings.Join(w.events, " ; ")
	secondarySlots := w.cfg.Adapters - 1
	described := false
	lostReply := map[string]bool{}
	for _, c := range w.cloud.Log[w.logMark:] {
		switch c.Op {
		case "Describe":
			if !c.Err {
				described = true
			}
		case "Assign4", "Assign6":
			// (a) what the controller ASKS for. The cloud refuses an assign beyond the interface's limit (Fault cloud-limit);
			// that refusal is the controller's fault when its knowledge of the interface was current: it described the
			// instance earlier in this transition, or its record matched the cloud when the transition began, and every
			// effect since was acknowledged to it
			fam := 0
			if c.Op == "Assign6" {
				fam = 1
			}
			if c.Fault == "cloud-limit" {
				k := w.prevKnown[c.ENI]
				current := described || (k[fam] == w.prevCloud[c.ENI][fam] && !lostReply[c.ENI])
				if current {
					x.Failf("C08/assign-request-over-per-adapter-limit", "%s refused by the cloud: the interface already holds %d addresses of that family (limit %d) and the controller's knowledge was current (record before the transition %d, cloud %d, described in this transition: %v); %s", c.String(), cloudCount(w.cloud.ENIs[c.ENI], fam), w.cfg.PerAdapter, k[fam], w.prevCloud[c.ENI][fam], described, hist)
				}
			}
			if c.Fault == "after" {
				lostReply[c.ENI] = true
			}
			if c.Err && c.Fault != "after" {
				continue
			}
			// (b) what the cloud ended up with (the simulated cloud refuses beyond its own limit, so this guards the simulator)
			ce := w.cloud.ENIs[c.ENI]
			if ce == nil {
				continue
			}
			have := len(ce.V4)
			if c.Op == "Assign6" {
				have = len(ce.V6)
			}
			if have > w.cfg.PerAdapter {
				x.Failf("C08/assign-over-per-adapter-limit", "%s left %d addresses on %s, limit %d; %s", c.String(), have, c.ENI, w.cfg.PerAdapter, hist)
			}
			if c.N4 > ecsBatchSize || c.N6 > ecsBatchSize {
				x.Failf("C08/assign-over-batch", "%s exceeds the batch size %d", c.String(), ecsBatchSize)
			}
		case "UnAssign4", "UnAssign6", "Detach", "Delete":
			if c.Fault == "after" {
				lostReply[c.ENI] = true
			}
			// trimming and release only ever touch what no pod owns: an address the record bound to a pod instance that
			// still exists (same UID) when the transition began is neither unassigned nor loses its interface
			for _, o := range w.prevOwned[c.ENI] {
				if !w.podInstanceExists(o[0], o[1]) {
					continue
				}
				hit := c.Op == "Detach" || c.Op == "Delete"
				for _, a := range c.IPs {
					hit = hit || a == o[2]
				}
				if hit {
					x.Failf("C08/released-address-owned-by-existing-pod", "%s while %s was bound to pod %s (uid %s), which still exists; %s", c.String(), o[2], o[0], o[1], hist)
				}
			}
		case "Create":
			if c.N4 > w.cfg.PerAdapter || c.N6 > w.cfg.PerAdapter {
				x.Failf("C08/create-over-per-adapter-limit", "%s asks for more than %d addresses; %s", c.String(), w.cfg.PerAdapter, hist)
			}
			if c.Err && c.Fault != "after" {
				continue
			}
			// interfaces of this instance + those created and not yet attached/deleted by this controller
			cnt := 0
			for _, id := range w.cloud.SortedIDs() {
				e := w.cloud.ENIs[id]
				if !e.Deleted && e.Type != aliyunClient.ENITypePrimary && e.InstanceID == "i-1" {
					cnt++ // interfaces attached to the instance are what the quota is about
				}
			}
			if cnt > secondarySlots {
				x.Failf("C08/create-over-eni-quota", "after %s the node has %d non-primary interfaces, flavor total %d; %s", c.String(), cnt, secondarySlots, hist)
			}
		}
	}
	_ = n
}

func cloudCount(e *simcloud.CENI, fam int) int {
	if e == nil {
		return 0
	}
	if fam == 1 {
		return len(e.V6)
	}
	return len(e.V4)
}

func (w *nw) detachedByDrift(id string) bool {
	for _, e := range w.events {
		if e == "drift:detachENI" {
			return true
		}
	}
	return false
}

// closure: from the current state, faults off, the deterministic healthy loop must reach a fixed point.
func (w *nw) closureC08(x *vrt.Exec, hist []string, afterFault bool) {
	h := strings.Join(hist, " ; ")
	w.cloud.Armed = map[string]string{}
	w.failUpdate = false
	if afterFault {
		vrt.Advance(11 * time.Minute) // past the vSwitch block TTL / back-off windows an exhaustion report opens
	}
	const K = 10
	prev := ""
	fixed := -1
	for i := 0; i < K; i++ {
		w.logMark = len(w.cloud.Log)
		w.Apply(&vrt.Exec{}, "reconcile")
		w.checkC08Calls(x)
		vrt.Advance(61 * time.Second)
		cur := crOnly(w.node()) + "|" + w.cloud.Canon()
		if cur == prev && len(w.cloud.Mutations(w.logMark)) == 0 {
			fixed = i
			break
		}
		prev = cur
	}
	if fixed < 0 {
		x.Failf("C08/no-fixed-point", "healthy reconcile loop did not reach a fixed point in %d rounds from state after [%s]; last cloud calls %v", K, h, w.cloud.LogStrings(w.logMark))
		return
	}
	n := w.node()
	// capacity for the eligible pods?
	capacity := 0
	for _, fl := range n.Spec.Flavor {
		if fl.NetworkInterfaceType == networkv1beta1.ENITypeSecondary && fl.NetworkInterfaceTrafficMode == networkv1beta1.NetworkInterfaceTrafficModeStandard || fl.NetworkInterfaceType == networkv1beta1.ENITypeTrunk {
			capacity += fl.Count * w.cfg.PerAdapter
		}
	}
	bound := map[string]map[string]bool{}
	for key := range nwBindings(n) {
		p := strings.Split(key, "/")
		if bound[p[0]+"/"+p[1]] == nil {
			bound[p[0]+"/"+p[1]] = map[string]bool{}
		}
		bound[p[0]+"/"+p[1]][p[2]] = true
	}
	npods := 0
	for i := 0; i < w.cfg.Pods; i++ {
		if w.pod(i) != nil {
			npods++
		}
	}
	driftDetached := w.detachedByDrift("")
	if npods+w.cfg.MinPool <= capacity && !driftDetached {
		for i := 0; i < w.cfg.Pods; i++ {
			p := w.pod(i)
			if p == nil || (w.cfg.RDMAPod && i == 0) {
				continue
			}
			b := bound["ns/"+p.Name]
			if (w.cfg.V4 && !b["4"]) || (w.cfg.V6 && !b["6"]) {
				x.Failf("C08/eligible-pod-unbound-at-fixed-point", "fixed point after [%s]: pod %s has bindings %v (capacity %d, pods %d, minPool %d); CR %s", h, p.Name, b, capacity, npods, w.cfg.MinPool, crOnly(n))
			}
		}
		idle := 0
		for _, e := range n.Status.NetworkInterfaces {
			if e.Status != aliyunClient.ENIStatusInUse {
				continue
			}
			if w.cfg.V4 {
				idle += IdlesWithAvailable(e.IPv4)
			} else {
				idle += IdlesWithAvailable(e.IPv6)
			}
		}
		if idle < min(w.cfg.MinPool, capacity-npods) {
			x.Failf("C08/idle-below-min-at-fixed-point", "fixed point after [%s]: idle=%d < minPool=%d; CR %s", h, idle, w.cfg.MinPool, crOnly(n))
		}
		// primaries of interfaces that still carry a pod cannot be released
		stuck := 0
		for _, e := range n.Status.NetworkInterfaces {
			for _, v := range e.IPv4 {
				if v.Primary && v.PodID == "" && v.Status == networkv1beta1.IPStatusValid {
					stuck++
				}
			}
		}
		if idle-stuck > w.cfg.MaxPool && idle > w.cfg.MinPool {
			x.Failf("C08/idle-above-max-at-fixed-point", "fixed point after [%s]: idle=%d (undisposable primaries %d) > maxPool=%d; CR %s", h, idle, stuck, w.cfg.MaxPool, crOnly(n))
		}
	}
	// one more reconcile: no cloud mutation, no status write
	w.logMark = len(w.cloud.Log)
	rv := n.ResourceVersion
	w.Apply(&vrt.Exec{}, "reconcile")
	if m := w.cloud.Mutations(w.logMark); len(m) > 0 {
		x.Failf("C08/mutation-at-fixed-point", "a further reconcile at the fixed point issued %v; after [%s]", m, h)
	}
	if w.node().ResourceVersion != rv {
		x.Failf("C08/status-write-at-fixed-point", "a further reconcile at the fixed point wrote the Node status again; after [%s]", h)
	}
	// record == cloud after the next full synchronisation
	vrt.Advance(21 * time.Minute)
	for i := 0; i < 4; i++ {
		w.Apply(&vrt.Exec{}, "reconcile")
		w.checkC08Calls(x)
		vrt.Advance(61 * time.Second)
	}
	n = w.node()
	for _, id := range w.cloud.SortedIDs() {
		ce := w.cloud.ENIs[id]
		if ce.Deleted || ce.Type == aliyunClient.ENITypePrimary {
			continue
		}
		cr := n.Status.NetworkInterfaces[id]
		if ce.InstanceID != "i-1" {
			if !ce.Foreign && !driftDetached && cr == nil && !w.createdByLostReply(id) {
				x.Failf("C08/leaked-eni", "interface %s created for this node exists in the cloud (status %s), is not attached and not recorded; after [%s]; cloud log %v", id, ce.Status, h, w.cloud.LogStrings(0))
			}
			continue
		}
		if cr == nil {
			x.Failf("C08/attached-eni-not-recorded", "interface %s is attached to the instance but absent from the record after a full sync; after [%s]", id, h)
			continue
		}
		for _, ip := range ce.V4 {
			if w.cfg.V4 && cr.IPv4[ip] == nil {
				x.Failf("C08/cloud-address-not-recorded", "address %s on %s is assigned in the cloud but not recorded after a full sync; after [%s]; cloud log %v", ip, id, h, w.cloud.LogStrings(0))
			}
		}
		for ip := range cr.IPv4 {
			found := false
			for _, c := range ce.V4 {
				found = found || c == ip
			}
			if !found {
				x.Failf("C08/recorded-address-not-in-cloud", "record lists %s on %s which the cloud does not have after a full sync; after [%s]", ip, id, h)
			}
		}
	}
	for id, cr := range n.Status.NetworkInterfaces {
		if ce := w.cloud.ENIs[id]; ce == nil || ce.Deleted {
			x.Failf("C08/recorded-eni-not-in-cloud", "record lists interface %s (status %s) which the cloud does not have after a full sync; after [%s]", id, cr.Status, h)
		}
	}
}

// createdByLostReply: the interface was created by a Create whose reply was lost and which was never retried with the
// same parameters (same client token) — the controller has no way to learn its id; outside the claim (DESIGN §8).
func (w *nw) createdByLostReply(id string) bool {
	for _, c := range w.cloud.Log {
		if c.Op == "Create" && c.ENI == id && c.Fault == "after" {
			return true
		}
	}
	return false
}

func crOnly(n *networkv1beta1.Node) string {
	b, _ := json.Marshal(n.Status.NetworkInterfaces)
	return string(b)
}

// ---------------------------------------------------------------- running

func nwReportBFS(r *ev.Rec, t *testing.T, name string, res *bfs.Result) {
	if res.HarnessErr != "" {
		t.Fatalf("harness error in %s: %s", name, res.HarnessErr)
	}
	for _, v := range res.Violations {
		r.Violate(v.Sig, v.Detail, map[string]any{"config": name, "history": v.History})
	}
	r.States(res.States)
	r.Transitions(res.Transitions)
	r.Traces(res.Replays)
	r.Add("closure_runs", res.Closures)
	if !res.FrontierEmptied {
		r.Add("configs_depth_bounded", 1)
	}
	r.Case(fmt.Sprintf("%s/%d", name, res.States), map[string]any{"config": name, "states": res.States, "transitions": res.Transitions, "depth": res.Depth, "frontier_emptied": res.FrontierEmptied, "closures": res.Closures, "sample_histories": res.SampleHist})
}
