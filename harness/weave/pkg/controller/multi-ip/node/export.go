//go:build verif

package node

import (
	"time"

	"go.opentelemetry.io/otel/trace/noop"
	"k8s.io/client-go/tools/record"
	"sigs.k8s.io/controller-runtime/pkg/client"

	register "github.com/AliyunContainerService/terway/pkg/controller"
	"github.com/AliyunContainerService/terway/pkg/vswitch"
	"github.com/AliyunContainerService/terway/types"
)

// VerifNewReconcileNode builds the node IPAM controller without a controller-runtime manager.
// Injected through -overlay for the /verif harness only.
func VerifNewReconcileNode(c client.Client, aliyun register.Interface) *ReconcileNode {
	sp, _ := vswitch.NewSwitchPool(100, "10m")
	return &ReconcileNode{client: c, scheme: types.Scheme, record: &record.FakeRecorder{}, aliyun: aliyun, vswpool: sp,
		fullSyncNodePeriod: 10 * time.Minute, gcPeriod: time.Minute, tracer: noop.NewTracerProvider().Tracer(""), eniBatchSize: 5}
}
