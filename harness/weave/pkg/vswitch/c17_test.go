//go:build verif

package vswitch

import (
	"context"
	"fmt"
	"sort"
	"strings"
	"testing"
	"time"

	"github.com/AliyunContainerService/terway/internal/verif/ev"
	vrt "github.com/AliyunContainerService/terway/internal/verif/rt"
	"github.com/aliyun/alibaba-cloud-sdk-go/services/vpc"
)

type verifSw struct {
	zone string
	free int64
	err  bool
}

// verifVPC is the simulated DescribeVSwitchByID: a scheduling point (a remote call takes time),
// answers from a table, counts calls.
type verifVPC struct {
	mu    vrt.Mutex
	tab   map[string]verifSw
	calls int
}

func (v *verifVPC) DescribeVSwitchByID(ctx context.Context, id string) (*vpc.VSwitch, error) {
	v.mu.Lock()
	s, ok := v.tab[id]
	v.calls++
	v.mu.Unlock()
	vrt.Yield() // the reply arrives later
	if !ok || s.err {
		return nil, fmt.Errorf("describe %s failed", id)
	}
	return &vpc.VSwitch{VSwitchId: id, ZoneId: s.zone, AvailableIpAddressCount: s.free, CidrBlock: "10.0.0.0/24"}, nil
}

// verifRefSelect is the reference: which ids are acceptable answers (ordered/most: exactly one; random: a set).
func verifRefSelect(tab map[string]verifSw, blocked map[string]bool, zone string, ids []string, policy SelectionPolicy, ignoreZone bool) (ok map[string]bool) {
	ok = map[string]bool{}
	type c struct {
		id   string
		free int64
		zone string
	}
	var cands []c
	for _, id := range ids {
		s, found := tab[id]
		if !found || s.err {
			continue
		}
		f := s.free
		if blocked[id] {
			f = 0
		}
		cands = append(cands, c{id, f, s.zone})
	}
	pick := func(inZone bool) bool {
		var el []c
		for _, x := range cands {
			if (x.zone == zone) == inZone && x.free > 0 {
				el = append(el, x)
			}
		}
		if len(el) == 0 {
			return false
		}
		switch policy {
		case VSwitchSelectionPolicyRandom:
			for _, x := range el {
				ok[x.id] = true
			}
		case VSwitchSelectionPolicyMost:
			best := el[0].free
			for _, x := range el {
				if x.free > best {
					best = x.free
				}
			}
			// 'most' ranks all candidates (any zone) by free count first, then takes the first in zone:
			// among equals any is acceptable
			for _, x := range el {
				if x.free == best {
					ok[x.id] = true
				}
			}
		default:
			ok[el[0].id] = true
		}
		return true
	}
	if !pick(true) && ignoreZone {
		pick(false)
	}
	return ok
}

func verifFailSig(f vrt.Violation) string { return f.Sig }

func verifReport(r *ev.Rec, cfg vrt.Config, res *vrt.Result, body func(*vrt.Exec), t *testing.T) {
	if res.HarnessErr != "" {
		t.Fatalf("harness error in %s: %s", cfg.Name, res.HarnessErr)
	}
	if len(res.Violations) > 0 {
		vrt.Confirm(cfg, res, body, 5)
		if res.HarnessErr != "" {
			t.Fatalf("harness error in %s: %s", cfg.Name, res.HarnessErr)
		}
	}
	for _, v := range res.Violations {
		sig := v.Sig
		if i := strings.Index(sig, "::"); i >= 0 {
			sig = sig[i+2:] // drop the scenario instance, keep the failure class
		}
		r.Violate(sig, v.Detail, v.Replay)
	}
	r.States(res.States)
	r.Transitions(res.Steps)
	r.Traces(res.Execs)
	r.Add("executions", res.Execs)
	r.Add("pruned", res.Pruned)
	r.Add("truncated", res.Truncated)
	if !res.Exhaustive {
		r.NotExhaustive()
	}
}

// ---- sequential: every candidate list x zones x free counts x policy (every shuffle outcome) x IgnoreZone

func TestVerifC17Select(t *testing.T) {
	r := ev.New("C17", "select")
	defer r.Flush()
	r.Rule("every candidate list of <=3 ids out of 4 vSwitches (zones z1/z2, free counts {0,1,5}, one failing lookup) x policy {ordered, most, random: every shuffle outcome through the order seam} x IgnoreZone x requested zone, cache empty or pre-filled, through the real GetOne under the cooperative runtime; oracle: result in reference set (from the list, zone unless fallback, free>0, ordered=first, most=max) and the caller's slice element-wise unchanged; distinct = (policy, result, list shape)")
	all := []string{"a", "b", "c", "d"}
	var lists [][]string
	var rec func(cur []string, n int)
	rec = func(cur []string, n int) {
		if len(cur) > 0 {
			lists = append(lists, append([]string{}, cur...))
		}
		if n == 0 {
			return
		}
		for _, x := range all {
			dup := false
			for _, y := range cur {
				dup = dup || x == y
			}
			if !dup {
				rec(append(cur, x), n-1)
			}
		}
	}
	rec(nil, 3)
	tabs := []map[string]verifSw{
		{"a": {"z1", 5, false}, "b": {"z1", 1, false}, "c": {"z2", 5, false}, "d": {"z1", 0, false}},
		{"a": {"z1", 0, false}, "b": {"z2", 1, false}, "c": {"z1", 5, false}, "d": {"z2", 5, false}},
		{"a": {"z2", 1, false}, "b": {"z1", 1, false}, "c": {"z1", 1, true}, "d": {"z1", 5, false}},
		{"a": {"z1", 0, false}, "b": {"z1", 0, false}, "c": {"z2", 0, false}, "d": {"z2", 1, false}},
	}
	if !ev.Thorough() {
		tabs = tabs[:3]
	}
	execs := int64(0)
	for ti, tab := range tabs {
		for _, list := range lists {
			for _, policy := range []SelectionPolicy{VSwitchSelectionPolicyOrdered, VSwitchSelectionPolicyMost, VSwitchSelectionPolicyRandom, ""} {
				for _, ign := range []bool{false, true} {
					for _, prefill := range []bool{false, true} {
						zone := "z1"
						name := fmt.Sprintf("select/tab%d/%v/%s/ign=%v/prefill=%v", ti, list, policy, ign, prefill)
						cfg := vrt.Config{Name: name, Budget: [4]int{0, 1, 0, 0}, MaxSteps: 500}
						outcomes := map[string]bool{}
						body := func(x *vrt.Exec) {
							pool, _ := NewSwitchPool(100, "10m")
							cl := &verifVPC{tab: tab}
							if prefill {
								for id, s := range tab {
									if !s.err {
										pool.Add(&Switch{ID: id, Zone: s.zone, AvailableIPCount: s.free})
									}
								}
							}
							ids := append([]string{}, list...)
							orig := append([]string{}, list...)
							got, err := pool.GetOne(context.Background(), cl, zone, ids, &SelectOptions{IgnoreZone: ign, VSwitchSelectPolicy: policy})
							want := verifRefSelect(tab, nil, zone, orig, policy, ign)
							res := "none"
							if err == nil && got != nil {
								res = got.ID
							}
							x.Outcome(res)
							outcomes[res] = true
							if fmt.Sprint(ids) != fmt.Sprint(orig) {
								x.Failf(fmt.Sprintf("GetOne/caller-slice-modified/policy=%s", policy), "candidate list %v came back as %v (policy %q)", orig, ids, policy)
							}
							switch {
							case res == "none" && len(want) > 0:
								x.Failf(fmt.Sprintf("GetOne/no-result/policy=%s", policy), "list %v zone %s policy %q ignoreZone=%v: error %v although %v eligible", orig, zone, policy, ign, err, keys(want))
							case res != "none" && !want[res]:
								x.Failf(fmt.Sprintf("GetOne/wrong-choice/policy=%s", policy), "list %v zone %s policy %q ignoreZone=%v table %v: chose %s, acceptable %v", orig, zone, policy, ign, tab, res, keys(want))
							}
							if err == nil && got != nil && got.AvailableIPCount == 0 {
								x.Failf("GetOne/exhausted-chosen", "chose %s with 0 free addresses", got.ID)
							}
						}
						res := vrt.Explore(cfg, body)
						verifReport(r, cfg, res, body, t)
						execs += res.Execs
						// random must be able to return every eligible candidate (all shuffle outcomes were enumerated)
						if policy == VSwitchSelectionPolicyRandom && len(list) <= 3 {
							want := verifRefSelect(tab, nil, zone, list, policy, ign)
							for id := range want {
								if !outcomes[id] && len(res.Violations) == 0 {
									r.Violate("GetOne/random-never-picks-eligible", fmt.Sprintf("%s: eligible %s never chosen over all %d shuffle outcomes %v", name, id, res.Execs, res.OutcomeList()), name)
								}
							}
						}
						r.Case(fmt.Sprintf("%s/%d/%v/%v/%v", policy, len(list), ign, prefill, res.OutcomeList()), map[string]any{"scenario": name, "outcomes": res.OutcomeList()})
					}
				}
			}
		}
	}
	_ = execs
}

func keys(m map[string]bool) []string {
	var k []string
	for x := range m {
		k = append(k, x)
	}
	sort.Strings(k)
	return k
}

// ---- histories: getOne / block / clock, sequential

func TestVerifC17Block(t *testing.T) {
	r := ev.New("C17", "block-history")
	defer r.Flush()
	depth := 4
	if ev.Thorough() {
		depth = 9
	}
	r.Rule(fmt.Sprintf("all sequences of length <=%d over {getOne, blockLast (Block of the id the latest getOne returned), clock+=ttl-1s, clock+=2s} on two vSwitches with ttl 10m (virtual clock drives the real LRUExpireCache); oracle: a getOne started after Block(id) and before that cache entry's expiry never returns id; after expiry the cloud's answer is used again", depth))
	ops := []string{"get", "block", "t-1", "t+2"}
	var seqs [][]string
	var rec func(cur []string)
	rec = func(cur []string) {
		if len(cur) > 0 {
			seqs = append(seqs, append([]string{}, cur...))
		}
		if len(cur) == depth {
			return
		}
		for _, o := range ops {
			rec(append(cur, o))
		}
	}
	rec(nil)
	ttl := 10 * time.Minute
	for _, seq := range seqs {
		name := "block/" + strings.Join(seq, ",")
		cfg := vrt.Config{Name: name, MaxSteps: 500}
		body := func(x *vrt.Exec) {
			pool, _ := NewSwitchPool(100, "10m")
			cl := &verifVPC{tab: map[string]verifSw{"a": {"z1", 5, false}, "b": {"z1", 3, false}}}
			ids := []string{"a", "b"}
			last := ""
			// reference of the cache entries' lifetimes (the statement says "until its cache entry expires"):
			// an entry written at T lives until T+ttl; Block re-writes a live entry (zeroed) and is a no-op otherwise
			entryUntil := map[string]time.Duration{}
			blockedUntil := map[string]time.Duration{}
			var out []string
			for _, op := range seq {
				switch op {
				case "get":
					now := vrt.Clock()
					got, err := pool.GetOne(context.Background(), cl, "z1", ids)
					res := "none"
					if err == nil {
						res = got.ID
					}
					out = append(out, res)
					if until, ok := blockedUntil[res]; ok && now < until {
						x.Failf("Block/chosen-before-expiry", "history %v: %s returned at %v although it was blocked at a time its entry was live and that entry only expires at %v", seq, res, now, until)
					}
					// ordered policy consults the ids in order up to the one it returns
					for _, id := range ids {
						if entryUntil[id] <= now {
							entryUntil[id] = now + ttl
							delete(blockedUntil, id)
						}
						if id == res {
							break
						}
					}
					if res == "none" && err == nil {
						x.Failf("GetOne/nil-nil", "no result and no error")
					}
					last = res
				case "block":
					if last != "" && last != "none" {
						now := vrt.Clock()
						pool.Block(last)
						if entryUntil[last] > now {
							entryUntil[last] = now + ttl
							blockedUntil[last] = now + ttl
						}
					}
				case "t-1":
					vrt.Advance(ttl - time.Second)
				case "t+2":
					vrt.Advance(2 * time.Second)
				}
			}
			x.Outcome(strings.Join(out, ","))
		}
		res := vrt.Explore(cfg, body)
		verifReport(r, cfg, res, body, t)
		r.Case(fmt.Sprint(res.OutcomeList()), map[string]any{"history": seq, "results": res.OutcomeList()})
	}
}

// ---- concurrency: GetOne || (GetOne; Block(selected)) ; GetOne   and   GetOne || GetOne || Block sharing one slice

func TestVerifC17Concurrent(t *testing.T) {
	r := ev.New("C17", "concurrent")
	defer r.Flush()
	pb := 2
	if ev.Thorough() {
		pb = 6
	}
	r.Rule(fmt.Sprintf("3 threads on one SwitchPool and ONE shared candidate slice: T1 GetOne; T2 GetOne then Block(its result); T3 Block(a) directly; afterwards a fresh GetOne; policies {ordered, most, random}; cache empty (single-flight fill in flight) or pre-filled; all interleavings with <=%d preemptions (+1 order deviation for random) with happens-before state caching; oracle: results from the list/zone/free>0, shared slice unchanged at the end, a GetOne started after a completed Block(id) never returns id (ttl not reached), no deadlock/panic", pb))
	for _, policy := range []SelectionPolicy{VSwitchSelectionPolicyOrdered, VSwitchSelectionPolicyMost, VSwitchSelectionPolicyRandom} {
		for _, prefill := range []bool{false, true} {
			name := fmt.Sprintf("conc/%s/prefill=%v", policy, prefill)
			ob := 0
			if policy == VSwitchSelectionPolicyRandom {
				ob = 1
			}
			cfg := vrt.Config{Name: name, Budget: [4]int{pb, ob, 0, 0}, MaxSteps: 800, Prune: true, Deadline: ev.Deadline(60*time.Second, 10*time.Minute)}
			tab := map[string]verifSw{"a": {"z1", 5, false}, "b": {"z1", 3, false}, "c": {"z2", 9, false}}
			body := func(x *vrt.Exec) {
				pool, _ := NewSwitchPool(100, "10m")
				cl := &verifVPC{tab: tab}
				if prefill {
					for id, s := range tab {
						pool.Add(&Switch{ID: id, Zone: s.zone, AvailableIPCount: s.free})
					}
				}
				shared := []string{"a", "b", "c"}
				orig := append([]string{}, shared...)
				opts := &SelectOptions{VSwitchSelectPolicy: policy}
				var wg vrt.WaitGroup
				var mu vrt.Mutex
				blocked := map[string]bool{}
				var results []string
				note := func(res *Switch, err error) string {
					s := "none"
					if err == nil && res != nil {
						s = res.ID
						if tab[s].zone != "z1" {
							x.Failf("GetOne/wrong-zone", "chose %s in zone %s", s, tab[s].zone)
						}
						if res.AvailableIPCount == 0 {
							x.Failf("GetOne/exhausted-chosen", "chose %s with 0 free addresses", s)
						}
					}
					mu.Lock()
					results = append(results, s)
					mu.Unlock()
					return s
				}
				wg.Add(3)
				vrt.Go(func() {
					defer wg.Done()
					note(pool.GetOne(context.Background(), cl, "z1", shared, opts))
				})
				vrt.Go(func() {
					defer wg.Done()
					s := note(pool.GetOne(context.Background(), cl, "z1", shared, opts))
					if s != "none" {
						pool.Block(s)
						mu.Lock()
						blocked[s] = true
						mu.Unlock()
					}
				})
				vrt.Go(func() {
					defer wg.Done()
					if prefill {
						pool.Block("a")
						mu.Lock()
						blocked["a"] = true
						mu.Unlock()
					}
				})
				wg.Wait()
				// everything above completed: a new selection must honour every completed Block
				got, err := pool.GetOne(context.Background(), cl, "z1", shared, opts)
				fin := "none"
				if err == nil && got != nil {
					fin = got.ID
				}
				if blocked[fin] {
					x.Failf("Block/lost-under-concurrency", "Block(%s) had returned, yet a later GetOne chose %s again (blocked=%v, earlier results %v)", fin, fin, keys(blocked), results)
				}
				if fmt.Sprint(shared) != fmt.Sprint(orig) {
					x.Failf(fmt.Sprintf("GetOne/caller-slice-modified/policy=%s", policy), "shared candidate list %v became %v", orig, shared)
				}
				sort.Strings(results)
				x.Outcome(fmt.Sprintf("%v|%s|%v", results, fin, keys(blocked)))
			}
			res := vrt.Explore(cfg, body)
			verifReport(r, cfg, res, body, t)
			r.Set("outcomes/"+name, len(res.Outcomes))
			r.Set("perbound/"+name, res.PerBound)
			r.Case(name+"/"+fmt.Sprint(len(res.Outcomes)), map[string]any{"scenario": name, "executions": res.Execs, "states": res.States, "distinct_outcomes": len(res.Outcomes), "sample_schedule": res.Sample})
			for o := range res.Outcomes {
				r.Distinct(name + "/" + o)
			}
		}
	}
}
