//go:build verif

package eni

import (
	"fmt"
	"testing"

	"github.com/AliyunContainerService/terway/internal/verif/ev"
	"github.com/AliyunContainerService/terway/types/daemon"
)

func c06Scenarios(thorough bool) []pwScenario {
	var out []pwScenario
	d := 2
	stacks := pwStacks[:2]
	caps := []int{1, 2, 3}
	idles := [][2]int{{0, 0}, {0, 1}, {1, 2}}
	if thorough {
		d = 3
		stacks = pwStacks
		idles = append(idles, [2]int{2, 2})
	}
	for _, st := range stacks {
		for _, cp := range caps {
			for _, batch := range []int{1, 2} {
				for _, idle := range idles {
					if !thorough && (batch == 1) != (cp == 1) && idle != [2]int{0, 0} {
						continue // quick: thin the product, every value of every parameter still appears
					}
					base := pwCfg{V4: st.v4, V6: st.v6, Cap: cp, Batch: batch, MinIdle: idle[0], MaxIdle: idle[1], Slots: 2, Policy: daemon.EniSelectionPolicyMostIPs}
					n := fmt.Sprintf("%s/cap%d/batch%d/idle%d-%d", st.name, cp, batch, idle[0], idle[1])
					c := base
					c.Pre = []pwPre{pre(min(cp, 2), min(cp, 2), st, "secondary")}
					out = append(out,
						pwScenario{Name: "B1-syncpool||add||del/" + n, Cfg: withStored(c, "z"), Threads: [][]pwOp{ops("syncpool"), ops("add:a"), ops("del:z")}, After: ops("syncpool", "add:b"), Budget: [4]int{d, 1, 0, 0}},
						pwScenario{Name: "B2-add||add||add/" + n, Cfg: c, Threads: [][]pwOp{ops("add:a"), ops("add:b"), ops("add:c")}, After: ops("syncpool"), Budget: [4]int{d - 1, 0, 0, 0}},
						pwScenario{Name: "B3-syncpool;syncpool||add;del/" + n, Cfg: c, Threads: [][]pwOp{ops("syncpool", "syncpool"), ops("add:a", "del:a")}, Budget: [4]int{d, 1, 0, 0}},
					)
				}
			}
		}
		// an address a live pod holds disappears in the cloud; the sync marks it invalid; a later shrink must still leave it alone
		{
			c := pwCfg{V4: st.v4, V6: st.v6, Cap: 4, Batch: 2, MinIdle: 0, MaxIdle: 1, Slots: 1, Policy: daemon.EniSelectionPolicyMostIPs}
			c.Pre = []pwPre{pre(4, 4, st, "secondary")}
			// two pods hold addresses, two stay idle (one more than maxIdle): the shrink that follows the sync has something to do
			out = append(out, pwScenario{Name: "B5-held-address-invalidated;shrink/" + st.name, Cfg: c, Threads: [][]pwOp{ops("add:a", "add:b", "rremoveheld:a", "rremoveheld:b", "lsync:0", "syncpool", "syncpool"), ops("lsync:0")}, After: ops("syncpool", "del:a", "del:b", "syncpool"), Budget: [4]int{d - 1, 0, 0, 0}})
		}
		// trunk and RDMA interfaces must never be deleted, whatever the balancer wants
		for _, kind := range []string{"trunk", "erdma"} {
			c := pwCfg{V4: st.v4, V6: st.v6, Cap: 3, Batch: 2, MinIdle: 0, MaxIdle: 0, Slots: 1, Policy: daemon.EniSelectionPolicyMostIPs}
			c.Pre = []pwPre{pre(2, 2, st, kind), pre(2, 2, st, "secondary")}
			out = append(out, pwScenario{Name: "B4-shrink-to-zero(" + kind + ")/" + st.name, Cfg: c, Threads: [][]pwOp{ops("syncpool", "syncpool"), ops("add:a", "del:a")}, After: ops("syncpool", "syncpool"), Budget: [4]int{d, 1, 0, 0}})
		}
	}
	return out
}

func withStored(c pwCfg, pod string) pwCfg {
	c.Stored = map[string]int{pod: 0}
	if c.Pre[0].V4 < 2 && c.V4 {
		c.Pre = append([]pwPre{}, c.Pre...)
		c.Pre[0].V4 = 2
	}
	return c
}

func TestVerifC06(t *testing.T) {
	r := ev.New("C06", "pool-quota-monitor")
	defer r.Flush()
	r.Rule("real eni.Manager/Local over the simulated factory; balancer-heavy scenarios B1-B5 (syncPool interleaved with ADD/DEL, repeated syncPool, shrink to zero with trunk/RDMA interfaces, shrink after a held address was invalidated by the cloud sync) x per-ENI cap {1,2,3} x batch {1,2} x (minIdle,maxIdle) x IP stack; all interleavings within the deviation budgets; oracle = monitor on the arguments of EVERY factory call against the ledger of live allocations at call time (assign: count on ENI + n <= cap, n <= batch; create: interfaces <= slots; unassign: not the primary, not held by a live pod; delete: not trunk/RDMA, no live address) plus the ack-time check that nothing handed out had been unassigned/deleted by the daemon")
	pwRun(r, t, "C06", c06Scenarios(ev.Thorough()), "C06")
}

func c07Scenarios(thorough bool) []pwScenario {
	var out []pwScenario
	f, d := 1, 1
	stacks := pwStacks[:2]
	if thorough {
		f, d = 2, 2
		stacks = pwStacks
	}
	for _, st := range stacks {
		base := pwCfg{V4: st.v4, V6: st.v6, Cap: 3, Batch: 2, MinIdle: 1, MaxIdle: 2, Slots: 2, Policy: daemon.EniSelectionPolicyMostIPs}
		one := base
		one.Pre = []pwPre{pre(1, 1, st, "secondary")}
		empty := base
		empty.Pre = nil
		full := base
		full.Pre = []pwPre{pre(3, 3, st, "secondary")}
		big := zeroIdle(base)
		big.Cap, big.Batch, big.Slots = 4, 1, 1
		big.Pre = []pwPre{pre(4, 4, st, "secondary")}
		big = withStored(big, "z")
		partial := base
		partial.Cap, partial.Slots, partial.MinIdle, partial.MaxIdle = 4, 1, 0, 1
		partial.Pre = []pwPre{pre(4, 4, st, "secondary")}
		n := st.name
		out = append(out,
			// assign faults while two requests wait
			pwScenario{Name: "F1-faulty-assign/" + n, Cfg: one, Threads: [][]pwOp{ops("add:a"), ops("add:b")}, After: ops("add:c"), Budget: [4]int{d, 0, f, 0}, Faults: true, Heal: 3, Steps: 4000},
			// create faults: no interface yet
			pwScenario{Name: "F2-faulty-create/" + n, Cfg: empty, Threads: [][]pwOp{ops("add:a"), ops("add:b")}, Budget: [4]int{d, 0, f, 0}, Faults: true, Heal: 3, Steps: 4000},
			// dispose faults: shrink with unassign/delete failing
			pwScenario{Name: "F3-faulty-dispose/" + n, Cfg: zeroIdle(full), Threads: [][]pwOp{ops("syncpool"), ops("add:a", "del:a")}, After: ops("syncpool"), Budget: [4]int{d, 0, f, 0}, Faults: true, Heal: 3, Steps: 4000},
			// cancellation combined with a fault
			pwScenario{Name: "F4-cancel+fault/" + n, Cfg: one, Threads: [][]pwOp{ops("add:a"), ops("addce:b")}, Budget: [4]int{d, 0, f, 1}, Faults: true, Heal: 2, Steps: 4000},
			pwScenario{Name: "F6-cancel-anywhere/" + n, Cfg: one, Threads: [][]pwOp{ops("addce:a")}, After: ops("add:b"), Budget: [4]int{d, 0, 0, 1}, Heal: 1, Steps: 4000},
			// shrink by more addresses than one unassign call may carry
			pwScenario{Name: "F7-shrink-beyond-batch/" + n, Cfg: big, Threads: [][]pwOp{ops("syncpool"), ops("add:a", "del:a")}, After: ops("syncpool"), Budget: [4]int{d, 0, f, 0}, Faults: true, Heal: 3, Steps: 4000},
			// the only requester gives up while the interface is being created and the create itself comes back faulty
			pwScenario{Name: "F9-requester-leaves-during-faulty-create/" + n, Cfg: empty, Threads: [][]pwOp{ops("addce:a")}, Budget: [4]int{d, 0, f, 1}, Faults: true, Heal: 2, Steps: 4000},
			// one metadata view omits an idle address that is still assigned; the pool marks it invalid; the next trim must
			// hand it back to the cloud, not just forget it
			pwScenario{Name: "F8-partial-metadata-view;trim/" + n, Cfg: partial, Threads: [][]pwOp{ops("add:a", "hidenext:0", "lsync:0", "syncpool", "syncpool"), ops("add:b")}, After: ops("syncpool"), Budget: [4]int{d, 0, 0, 0}, Heal: 2, Steps: 4000},
			// healthy: watermark band after churn
			pwScenario{Name: "F5-healthy-churn/" + n, Cfg: one, Threads: [][]pwOp{ops("add:a", "add:b", "del:a"), ops("syncpool")}, Budget: [4]int{d + 1, 1, 0, 0}, Heal: 3, Steps: 4000},
		)
	}
	return out
}

func zeroIdle(c pwCfg) pwCfg { c.MinIdle, c.MaxIdle = 0, 0; return c }

func TestVerifC07(t *testing.T) {
	r := ev.New("C07", "pool-faults")
	defer r.Flush()
	r.Rule("real eni.Manager/Local over the simulated factory with the fault menu of the factory contract (create: error before effect / quota code / vSwitch-exhausted code / interface created and returned with error, with or without its addresses; assign: error before effect / quota / exhausted / addresses assigned and returned with error, all or part; unassign & delete: error before or after effect; metadata load error) — every placement of <=f faults over the cloud calls of scenarios F1-F8 (incl. a shrink by more addresses than one call carries and a metadata view that omits an assigned address), combined with <=d scheduling deviations and one request cancellation; at quiescence Status() is compared with the simulated cloud (interfaces, addresses, ownership) and, after healthy balancer rounds, the idle count with the min/max watermark band")
	pwRun(r, t, "C07", c07Scenarios(ev.Thorough()), "C07")
}
