//go:build verif

package eni

import (
	"context"
	"fmt"
	"net/netip"
	"os"
	"sort"
	"strings"
	"testing"
	"time"

	"github.com/go-logr/logr"
	logf "sigs.k8s.io/controller-runtime/pkg/log"

	"github.com/AliyunContainerService/terway/internal/verif/ev"
	vrt "github.com/AliyunContainerService/terway/internal/verif/rt"
	"github.com/AliyunContainerService/terway/internal/verif/simcloud"
	"github.com/AliyunContainerService/terway/types/daemon"
)

func init() { logf.SetLogger(logr.Discard()) }

// ---------------------------------------------------------------- configuration of one pool world

type pwPre struct {
	V4, V6 int    // addresses on the interface at start (V4 includes the primary)
	Kind   string // secondary | trunk | erdma
}

type pwCfg struct {
	V4, V6                       bool
	Cap, Batch, MinIdle, MaxIdle int
	Slots                        int // number of secondary Local slots in total (attached + empty)
	Pre                          []pwPre
	Policy                       daemon.EniSelectionPolicy
	Stored                       map[string]int // pod -> index of pre ENI whose first idle secondary address it holds at start (restart)
}

func (c pwCfg) String() string {
	st := "v4"
	if c.V4 && c.V6 {
		st = "dual"
	} else if c.V6 {
		st = "v6"
	}
	return fmt.Sprintf("%s cap=%d batch=%d idle=%d..%d slots=%d pre=%v policy=%s", st, c.Cap, c.Batch, c.MinIdle, c.MaxIdle, c.Slots, c.Pre, c.Policy)
}

type pwOp struct {
	Kind string // add del addc cancel syncpool lsync rremove advance
	Pod  string
	N    int
}

func (o pwOp) String() string {
	if o.Pod != "" {
		return o.Kind + "(" + o.Pod + ")"
	}
	if o.N != 0 {
		return fmt.Sprintf("%s(%d)", o.Kind, o.N)
	}
	return o.Kind
}

type pwScenario struct {
	Name    string
	Cfg     pwCfg
	Threads [][]pwOp
	After   []pwOp
	Budget  [4]int
	Faults  bool
	Steps   int
	Heal    int // after everything: faults off + this many balancer rounds, then the watermark oracle (C07)
}

// ---------------------------------------------------------------- the world

type pwAck struct {
	res *LocalIPResource
}

type pw struct {
	x      *vrt.Exec
	sc     *pwScenario
	oracle map[string]bool // which property's oracles are active
	cloud  *simcloud.Node
	mgr    *Manager
	locals []*Local
	ctx    context.Context
	cancel context.CancelFunc
	wg     vrt.WaitGroup
	preIDs []string

	live       map[string]*LocalIPResource // pod -> acknowledged, not yet torn down
	inflight   map[string]int
	failed     map[string]int
	removed    map[netip.Addr]int // remotely removed address -> cloud log seq at removal
	cctx       map[string]context.Context
	ccancel    map[string]context.CancelFunc
	events     []string
	unassigned map[netip.Addr]bool
}

func pwPodCNI(pod string) *daemon.CNI {
	return &daemon.CNI{PodName: pod, PodNamespace: "ns", PodID: "ns/" + pod, PodUID: "uid-" + pod}
}

func newPW(x *vrt.Exec, sc *pwScenario, oracle map[string]bool) *pw {
	invalidIPCache = vrt.NewExpireCache(100)
	w := &pw{x: x, sc: sc, oracle: oracle, cloud: simcloud.NewNode(), live: map[string]*LocalIPResource{}, inflight: map[string]int{}, failed: map[string]int{},
		removed: map[netip.Addr]int{}, cctx: map[string]context.Context{}, ccancel: map[string]context.CancelFunc{}, unassigned: map[netip.Addr]bool{}}
	c := sc.Cfg
	pc := &daemon.PoolConfig{EnableIPv4: c.V4, EnableIPv6: c.V6, MaxIPPerENI: c.Cap, BatchSize: c.Batch, MaxENI: c.Slots, MinPoolSize: c.MinIdle, MaxPoolSize: c.MaxIdle, Capacity: c.Slots * c.Cap}
	var nis []NetworkInterface
	var stored []daemon.PodResources
	nsec := 0
	for i, p := range c.Pre {
		e := w.cloud.AddENI(p.V4, p.V6, p.Kind == "trunk", p.Kind == "erdma")
		w.preIDs = append(w.preIDs, e.ID)
		l := NewLocal(e.Daemon(), p.Kind, w.cloud, pc)
		w.locals = append(w.locals, l)
		nis = append(nis, l)
		if p.Kind == "secondary" {
			nsec++
		}
		for pod, idx := range c.Stored {
			if idx != i {
				continue
			}
			item := daemon.ResourceItem{Type: daemon.ResourceTypeENIIP, ENIID: e.ID, ENIMAC: e.MAC}
			var ip IPSet2Like
			if c.V4 && len(e.V4) > 1 {
				item.IPv4 = e.V4[1].String()
				ip.v4 = e.V4[1]
			}
			if c.V6 && len(e.V6) > 0 {
				item.IPv6 = e.V6[0].String()
				ip.v6 = e.V6[0]
			}
			item.ID = fmt.Sprintf("%s.%s", e.MAC, item.IPv4)
			stored = append(stored, daemon.PodResources{PodInfo: &daemon.PodInfo{Namespace: "ns", Name: pod}, Resources: []daemon.ResourceItem{item}})
			r := &LocalIPResource{ENI: *e.Daemon()}
			r.IP.IPv4, r.IP.IPv6 = ip.v4, ip.v6
			w.live[pod] = r
		}
	}
	sort.Slice(stored, func(i, j int) bool { return stored[i].PodInfo.Name < stored[j].PodInfo.Name })
	for i := nsec; i < c.Slots; i++ {
		l := NewLocal(nil, "secondary", w.cloud, pc)
		w.locals = append(w.locals, l)
		nis = append(nis, l)
	}
	w.mgr = NewManager(c.MinIdle, c.MaxIdle, pc.Capacity, 0, nis, c.Policy, nil)
	w.ctx, w.cancel = context.WithCancel(context.Background())
	if oracle["C06"] {
		w.cloud.Monitor = w.monitor
	}
	w.cloud.AfterEffect = w.afterEffect
	vrt.Freeze(true)
	if err := w.mgr.Run(w.ctx, &w.wg, stored); err != nil {
		x.Failf("harness/run", "Manager.Run: %v", err)
	}
	vrt.WaitQuiescent()
	vrt.Freeze(false)
	w.cloud.FaultsOn = sc.Faults
	return w
}

type IPSet2Like struct{ v4, v6 netip.Addr }

func (w *pw) ev(f string, a ...any) { w.events = append(w.events, fmt.Sprintf(f, a...)) }

func (w *pw) hist() string {
	return strings.Join(w.events, " ; ") + " || cloud: " + strings.Join(w.cloud.LogStrings(), " ")
}

func resIPs(r *LocalIPResource) []netip.Addr {
	var out []netip.Addr
	if r == nil {
		return nil
	}
	if r.IP.IPv4.IsValid() {
		out = append(out, r.IP.IPv4)
	}
	if r.IP.IPv6.IsValid() {
		out = append(out, r.IP.IPv6)
	}
	return out
}

// add mirrors daemon.AllocIP's use of the manager: allocate, on error hand back what was returned.
func (w *pw) add(pod string, ctx context.Context) {
	cni := pwPodCNI(pod)
	req := NewLocalIPRequest()
	prev := w.live[pod]
	if prev != nil {
		req.IPv4, req.IPv6, req.NetworkInterfaceID = prev.IP.IPv4, prev.IP.IPv6, prev.ENI.ID
	}
	startSeq := len(w.cloud.Log)
	startLoads := len(w.cloud.Loads)
	w.inflight[pod]++
	w.ev("add(%s)…", pod)
	res, err := w.mgr.Allocate(ctx, cni, &AllocRequest{ResourceRequests: []ResourceRequest{req}})
	if err != nil {
		_ = w.mgr.Release(ctx, cni, &ReleaseRequest{NetworkResources: res})
		w.inflight[pod]--
		w.failed[pod]++
		w.ev("add(%s)=ERR(%v)", pod, err)
		return
	}
	// ---- acknowledged: no scheduling point between Allocate's return and the ledger update
	w.inflight[pod]--
	if len(res) != 1 {
		w.x.Failf("C01/ack-shape", "ADD(%s) acknowledged with %d resources", pod, len(res))
		return
	}
	r, ok := res[0].(*LocalIPResource)
	if !ok {
		w.x.Failf("C01/ack-shape", "ADD(%s) acknowledged with %T", pod, res[0])
		return
	}
	w.ev("add(%s)=%s@%s", pod, r.IP.String(), r.ENI.ID)
	c := w.sc.Cfg
	if w.oracle["C01"] || w.oracle["C12"] {
		if c.V4 != r.IP.IPv4.IsValid() || c.V6 != r.IP.IPv6.IsValid() {
			w.x.Failf("C01/ack-incomplete", "ADD(%s) acknowledged with %q on a %v/%v stack; %s", pod, r.IP.String(), c.V4, c.V6, w.hist())
		}
	}
	if w.oracle["C01"] {
		for q, o := range w.live {
			if q == pod {
				continue
			}
			for _, a := range resIPs(r) {
				for _, b := range resIPs(o) {
					if a == b {
						w.x.Failf("C01/same-ip-two-live-pods", "address %s acknowledged to %s while live pod %s holds it; %s", a, pod, q, w.hist())
					}
				}
			}
		}
		if prev != nil && prev.IP != r.IP {
			w.x.Failf("C01/repeat-add-different-address", "repeated ADD(%s) got %s, it holds %s; %s", pod, r.IP.String(), prev.IP.String(), w.hist())
		}
	}
	for _, a := range resIPs(r) {
		eid, inCloud := w.cloud.Has(a)
		rmSeq, wasRemoved := w.removed[a]
		switch {
		case inCloud && eid != r.ENI.ID:
			if w.oracle["C01"] {
				w.x.Failf("C01/ack-wrong-eni", "ADD(%s): %s reported on %s but the cloud has it on %s", pod, a, r.ENI.ID, eid)
			}
		case !inCloud && w.unassigned[a]:
			if w.oracle["C01"] || w.oracle["C06"] {
				w.x.Failf("ack-after-unassign-or-delete", "ADD(%s) acknowledged with %s which the daemon itself had unassigned / whose interface it had deleted; %s", pod, a, w.hist())
			}
		case !inCloud && wasRemoved:
			// removed behind the daemon's back: a violation only if a sync that did not list it had returned before this ADD started
			if w.oracle["C01"] && (prev == nil || !containsIP(resIPs(prev), a)) {
				for _, lv := range w.cloud.Loads[:startLoads] {
					if lv.Seq > rmSeq && lv.MAC == r.ENI.MAC && !containsIP(lv.V4, a) && !containsIP(lv.V6, a) {
						w.x.Failf("C01/ack-after-sync-saw-removal", "ADD(%s) started after a cloud sync had returned without %s, yet got %s; %s", pod, a, a, w.hist())
						break
					}
				}
			}
		case !inCloud:
			if w.oracle["C01"] {
				w.x.Failf("C01/ack-not-in-cloud", "ADD(%s) acknowledged with %s which the cloud never assigned to an attached interface; %s", pod, a, w.hist())
			}
		}
	}
	_ = startSeq
	w.live[pod] = r
}

func containsIP(l []netip.Addr, a netip.Addr) bool {
	for _, x := range l {
		if x == a {
			return true
		}
	}
	return false
}

// del: the sandbox is being torn down; from this moment the pod no longer holds the address.
func (w *pw) del(pod string) {
	r := w.live[pod]
	if r == nil {
		w.ev("del(%s)=noop", pod)
		return
	}
	delete(w.live, pod)
	w.ev("del(%s)", pod)
	_ = w.mgr.Release(context.Background(), pwPodCNI(pod), &ReleaseRequest{NetworkResources: []NetworkResource{r}})
}

func (w *pw) run(op pwOp) {
	switch op.Kind {
	case "add":
		// the CNI request deadline: a starved request ends with a context error (virtual clock)
		ctx, cancel := vrt.CtxWithTimeout(w.ctx, 2*time.Minute)
		w.add(op.Pod, ctx)
		cancel()
	case "addc", "addce":
		ctx, cancel := vrt.CtxWithTimeout(w.cctx[op.Pod], 2*time.Minute)
		w.add(op.Pod, ctx)
		cancel()
	case "cancel":
		w.ev("cancel(%s)", op.Pod)
		vrt.CallCancel(w.ccancel[op.Pod])
	case "del":
		w.del(op.Pod)
	case "syncpool":
		w.ev("syncPool")
		w.mgr.syncPool(w.ctx)
	case "lsync":
		if op.N < len(w.locals) {
			w.ev("sync(%d)", op.N)
			w.locals[op.N].sync()
		}
	case "rremove":
		// remove the last address of pre-attached interface N behind the daemon's back
		if op.N < len(w.preIDs) {
			e := w.cloud.ENIs[w.preIDs[op.N]]
			var a netip.Addr
			if w.sc.Cfg.V4 && len(e.V4) > 1 {
				a = e.V4[len(e.V4)-1]
			} else if len(e.V6) > 0 {
				a = e.V6[len(e.V6)-1]
			}
			if a.IsValid() {
				w.cloud.RemoteRemove(a)
				w.removed[a] = len(w.cloud.Log)
				w.ev("remoteRemove(%s)", a)
			}
		}
	case "hidenext":
		// the next metadata view of pre-attached interface N omits its idle secondary addresses (they stay assigned)
		if op.N < len(w.preIDs) {
			e := w.cloud.ENIs[w.preIDs[op.N]]
			held := map[netip.Addr]bool{}
			for _, r := range w.live {
				for _, a := range resIPs(r) {
					held[a] = true
				}
			}
			hide := map[netip.Addr]bool{}
			for _, a := range append(append([]netip.Addr{}, e.V4...), e.V6...) {
				if a != e.Primary && !held[a] {
					hide[a] = true
					break // one address (per call) is enough
				}
			}
			w.cloud.HideNext = hide
			w.ev("nextViewOmits(%v)", hide)
		}
	case "rremoveheld":
		// the cloud loses the secondary address(es) a live pod holds (out-of-band unassign, or a metadata view lagging behind)
		if r := w.live[op.Pod]; r != nil {
			for _, a := range resIPs(r) {
				if e := w.cloud.ENIs[r.ENI.ID]; e != nil && a != e.Primary {
					w.cloud.RemoteRemove(a)
					w.removed[a] = len(w.cloud.Log)
					w.ev("remoteRemove(%s held by %s)", a, op.Pod)
				}
			}
		}
	case "advance":
		vrt.Advance(time.Duration(op.N) * time.Second)
		w.ev("clock+=%ds", op.N)
	}
}

// afterEffect keeps the record of what the daemon itself took away (for the ack-time oracle).
func (w *pw) afterEffect(n *simcloud.Node, c *simcloud.Call) {
	switch c.Op {
	case "UnAssign4", "UnAssign6":
		for _, ip := range c.IPs {
			w.unassigned[ip] = true
		}
	case "Delete":
		if e := n.ENIs[c.ENI]; e != nil {
			for _, ip := range append(append([]netip.Addr{}, e.V4...), e.V6...) {
				w.unassigned[ip] = true
			}
		}
	}
}

// monitor is C06's oracle: evaluated on the arguments of every factory call at call time.
func (w *pw) monitor(n *simcloud.Node, c *simcloud.Call) {
	cfg := w.sc.Cfg
	liveOn := func(eni string) []string {
		var out []string
		for p, r := range w.live {
			if r.ENI.ID == eni {
				out = append(out, p+"="+r.IP.String())
			}
		}
		sort.Strings(out)
		return out
	}
	switch c.Op {
	case "Assign4", "Assign6":
		e := n.ENIs[c.ENI]
		if e == nil {
			return
		}
		have := len(e.V4)
		if c.Op == "Assign6" {
			have = len(e.V6)
		}
		if have+c.Count > cfg.Cap {
			w.x.Failf("C06/assign-over-per-eni-cap", "%s on %s asks for %d with %d already assigned, cap %d; %s", c.Op, c.ENI, c.Count, have, cfg.Cap, w.hist())
		}
		if c.Count > cfg.Batch {
			w.x.Failf("C06/assign-over-batch", "%s asks for %d, batch size %d", c.Op, c.Count, cfg.Batch)
		}
		if c.Count <= 0 {
			w.x.Failf("C06/assign-nonpositive", "%s asks for %d", c.Op, c.Count)
		}
	case "Create":
		cnt := 0
		for _, e := range n.ENIs {
			if !e.Deleted {
				cnt++
			}
		}
		if cnt+1 > len(w.locals) {
			w.x.Failf("C06/create-over-eni-quota", "CreateNetworkInterface with %d interfaces present, quota %d; %s", cnt, len(w.locals), w.hist())
		}
		if c.Count > cfg.Cap || c.Count6 > cfg.Cap {
			w.x.Failf("C06/create-over-per-eni-cap", "CreateNetworkInterface asks for %d/%d addresses, cap %d", c.Count, c.Count6, cfg.Cap)
		}
		if c.Count > cfg.Batch || c.Count6 > cfg.Batch {
			w.x.Failf("C06/create-over-batch", "CreateNetworkInterface asks for %d/%d addresses, batch %d", c.Count, c.Count6, cfg.Batch)
		}
	case "UnAssign4", "UnAssign6":
		e := n.ENIs[c.ENI]
		for _, ip := range c.IPs {
			if e != nil && ip == e.Primary {
				w.x.Failf("C06/unassign-primary", "%s of the primary address %s of %s; %s", c.Op, ip, c.ENI, w.hist())
			}
			for p, r := range w.live {
				if containsIP(resIPs(r), ip) {
					w.x.Failf("C06/unassign-in-use", "%s of %s which live pod %s holds; %s", c.Op, ip, p, w.hist())
				}
			}
		}
	case "Delete":
		e := n.ENIs[c.ENI]
		if e == nil {
			return
		}
		if e.Trunk || e.ERdma {
			w.x.Failf("C06/delete-trunk-or-rdma", "DeleteNetworkInterface(%s) trunk=%v erdma=%v", c.ENI, e.Trunk, e.ERdma)
		}
		if l := liveOn(c.ENI); len(l) > 0 {
			w.x.Failf("C06/delete-eni-in-use", "DeleteNetworkInterface(%s) while live pods hold addresses on it: %v; %s", c.ENI, l, w.hist())
		}
	}
}

// ---------------------------------------------------------------- quiescent-state oracles

type pwUsage struct {
	eni, ip, pod, status string
}

func (w *pw) usage() (map[string]bool, []pwUsage) {
	enis := map[string]bool{}
	var us []pwUsage
	for _, s := range w.mgr.Status() {
		if s.NetworkInterfaceID == "" {
			continue
		}
		enis[s.NetworkInterfaceID] = true
		for _, u := range s.Usage {
			us = append(us, pwUsage{s.NetworkInterfaceID, u[0], u[1], u[2]})
		}
	}
	return enis, us
}

func (w *pw) checkQuiescent() {
	enis, us := w.usage()
	if w.oracle["C01"] || w.oracle["C07"] {
		// ownership in Status() == ledger
		owned := map[string][]string{}
		for _, u := range us {
			if u.pod != "" {
				owned[u.pod] = append(owned[u.pod], u.ip)
			}
		}
		for pod, r := range w.live {
			var want []string
			for _, a := range resIPs(r) {
				want = append(want, a.String())
			}
			got := owned["ns/"+pod]
			sort.Strings(got)
			sort.Strings(want)
			if w.oracle["C01"] && fmt.Sprint(got) != fmt.Sprint(want) {
				w.x.Failf("C01/status-ownership-differs", "pod %s was acknowledged %v but the pool shows it owning %v; %s", pod, want, got, w.hist())
			}
		}
		for pod, ips := range owned {
			p := strings.TrimPrefix(pod, "ns/")
			if w.live[p] == nil && w.inflight[p] == 0 {
				sig := "C07/owned-by-pod-that-holds-none"
				if w.oracle["C07"] || w.oracle["C04"] {
					w.x.Failf(sig, "quiescent pool shows %v owned by %s which holds no acknowledged address (failed ADDs: %d); %s", ips, pod, w.failed[p], w.hist())
				}
			}
		}
	}
	if w.oracle["C07"] {
		for _, id := range w.cloud.SortedIDs() {
			e := w.cloud.ENIs[id]
			if e.Deleted {
				if enis[id] {
					w.x.Failf("C07/tracks-deleted-eni", "pool tracks %s which no longer exists in the cloud; %s", id, w.hist())
				}
				continue
			}
			if !enis[id] {
				w.x.Failf("C07/orphan-eni", "cloud interface %s (created by daemon: %v) is not tracked by the pool; %s", id, e.ByDaemon, w.hist())
				continue
			}
			tracked := map[string]string{}
			for _, u := range us {
				if u.eni == id {
					tracked[u.ip] = u.status
				}
			}
			for _, a := range append(append([]netip.Addr{}, e.V4...), e.V6...) {
				if (a.Is4() && !w.sc.Cfg.V4) || (a.Is6() && !w.sc.Cfg.V6) {
					continue
				}
				if _, ok := tracked[a.String()]; !ok {
					w.x.Failf("C07/orphan-address", "cloud address %s on %s is not tracked by the quiescent pool; %s", a, id, w.hist())
				}
			}
			for ip, st := range tracked {
				a := netip.MustParseAddr(ip)
				if _, ok := w.cloud.Has(a); !ok {
					if _, rm := w.removed[a]; rm {
						continue
					}
					w.x.Failf("C07/tracks-address-not-in-cloud", "pool tracks %s (%s) on %s which the cloud does not have; %s", ip, st, id, w.hist())
				}
			}
		}
		for id := range enis {
			if e := w.cloud.ENIs[id]; e == nil {
				w.x.Failf("C07/tracks-unknown-eni", "pool tracks %s unknown to the cloud", id)
			}
		}
		// "everything the cloud created on its behalf is either tracked or has been handed back": an interface the pool
		// decided to give back (slot status Deleting) must really go once the pool is quiescent and the cloud healthy
		if w.sc.Heal > 0 {
			for _, st := range w.mgr.Status() {
				if st.Status == "Deleting" && st.NetworkInterfaceID != "" {
					if e := w.cloud.ENIs[st.NetworkInterfaceID]; e != nil && !e.Deleted {
						w.x.Failf("C07/interface-stuck-in-deleting", "after %d healthy balancer rounds the slot of %s is still Deleting and the interface still exists in the cloud: nobody hands it back; %s", 3*w.sc.Heal, st.NetworkInterfaceID, w.hist())
					}
				}
			}
		}
	}
}

// idle counts what Status() shows as neither owned nor being deleted.
func (w *pw) watermark() (idle, inuse, undisposable int) {
	_, us := w.usage()
	prim := map[string]bool{}
	for _, e := range w.cloud.ENIs {
		prim[e.Primary.String()] = true
	}
	fam := func(ip string) bool { return strings.Contains(ip, ":") }
	for _, u := range us {
		if w.sc.Cfg.V4 && fam(u.ip) {
			continue // count the family Usage() counts
		}
		if u.pod != "" {
			inuse++
			continue
		}
		if u.status == "Valid" {
			idle++
			if prim[u.ip] {
				undisposable++
			}
		}
	}
	return
}

// ---------------------------------------------------------------- running a scenario

func pwBody(sc *pwScenario, oracle map[string]bool) func(x *vrt.Exec) {
	return func(x *vrt.Exec) {
		w := newPW(x, sc, oracle)
		if x.Failed() {
			return
		}
		for _, th := range sc.Threads {
			for _, op := range th {
				if op.Kind == "addc" || op.Kind == "addce" {
					w.cctx[op.Pod], w.ccancel[op.Pod] = context.WithCancel(w.ctx)
				}
				if op.Kind == "addce" {
					// the caller goes away at ANY scheduling point: an explorer-delivered environment event
					pod := op.Pod
					cancel := w.ccancel[pod]
					vrt.EnvEvent("cancel:"+pod, func() { w.ev("cancel(%s)", pod); cancel() })
				}
			}
		}
		var wg vrt.WaitGroup
		for _, th := range sc.Threads {
			th := th
			wg.Add(1)
			vrt.Go(func() {
				defer wg.Done()
				for _, op := range th {
					w.run(op)
				}
			})
		}
		wg.Wait()
		for _, op := range sc.After {
			w.run(op)
		}
		vrt.WaitQuiescent()
		if sc.Heal > 0 {
			w.cloud.FaultsOn = false
			vrt.Freeze(true)
			// Go's map iteration is random and the balancer relies on that to make progress (Dispose may pick the
			// undisposable primary address first); "returns to the band" is therefore judged under a FAIR
			// iteration order: the healthy rounds cycle through sorted / reversed / rotated order
			for i := 0; i < 3*sc.Heal; i++ {
				vrt.SetOrderMode(i % 3)
				w.mgr.syncPool(w.ctx)
				vrt.WaitQuiescent()
				vrt.Advance(11 * time.Minute) // past every allocation inhibit
			}
			vrt.SetOrderMode(0)
			vrt.Freeze(false)
		}
		w.checkQuiescent()
		if sc.Heal > 0 && oracle["C07"] {
			idle, inuse, undisp := w.watermark()
			c := sc.Cfg
			capacity := c.Slots * c.Cap
			lo := c.MinIdle
			if capacity-inuse < lo {
				lo = capacity - inuse
			}
			if idle < lo {
				x.Failf("C07/idle-below-min-watermark", "after %d healthy balancer rounds idle=%d < min(minIdle=%d, capacity-inUse=%d); %s", 3*sc.Heal, idle, c.MinIdle, capacity-inuse, w.hist())
			}
			if idle-undisp > c.MaxIdle && idle > lo {
				x.Failf("C07/idle-above-max-watermark", "after %d healthy balancer rounds (sorted/reversed/rotated map order in turn) idle=%d (of which %d undisposable primaries) > maxIdle=%d; %s", 3*sc.Heal, idle, undisp, c.MaxIdle, w.hist())
			}
		}
		// outcome = what the clients observed (canonical)
		var o []string
		for p, r := range w.live {
			o = append(o, p+"="+r.IP.String()+"@"+r.ENI.ID)
		}
		for p, n := range w.failed {
			o = append(o, fmt.Sprintf("%s:failed%d", p, n))
		}
		sort.Strings(o)
		x.Outcome(strings.Join(o, ",") + "|" + strings.Join(w.cloud.LogStrings(), " "))
	}
}

func pwReport(r *ev.Rec, cfg vrt.Config, res *vrt.Result, body func(*vrt.Exec), t *testing.T, prop string) {
	if res.HarnessErr != "" {
		t.Fatalf("harness error in %s: %s", cfg.Name, res.HarnessErr)
	}
	if len(res.Violations) > 0 {
		vrt.Confirm(cfg, res, body, 5)
		if res.HarnessErr != "" {
			t.Fatalf("harness error in %s: %s", cfg.Name, res.HarnessErr)
		}
	}
	for _, v := range res.Violations {
		sig := v.Sig
		if i := strings.Index(sig, "::"); i >= 0 {
			sig = sig[i+2:]
		}
		r.Violate(sig, v.Detail, v.Replay)
	}
	r.States(res.States)
	r.Transitions(res.Steps)
	r.Traces(res.Execs)
	r.Add("executions", res.Execs)
	r.Add("pruned", res.Pruned)
	r.Add("truncated", res.Truncated)
	r.Add("deadlocks", res.Deadlocks)
	if !res.Exhaustive {
		r.NotExhaustive()
	}
}

func pwRun(r *ev.Rec, t *testing.T, prop string, scs []pwScenario, oracles ...string) {
	or := map[string]bool{}
	for _, o := range oracles {
		or[o] = true
	}
	si, sn := ev.Shard()
	dl := ev.Deadline(150*time.Second, 40*time.Minute)
	if rp := os.Getenv("VERIF_REPLAY"); rp != "" {
		if si != 0 {
			return
		}
		rep, err := vrt.LoadReplay(rp)
		if err != nil {
			t.Fatal(err)
		}
		for i := range scs {
			if scs[i].Name != rep.Scenario {
				continue
			}
			sc := &scs[i]
			cfg := vrt.Config{Name: sc.Name, Budget: sc.Budget, MaxSteps: 6000, Replay: rep.Choices, Delay: true}
			res := vrt.Explore(cfg, pwBody(sc, or))
			fmt.Printf("REPLAY %s choices=%v\n", sc.Name, rep.Choices)
			for _, s := range res.Sample {
				fmt.Println(strings.Join(s.Trace, "\n"))
			}
			for _, v := range res.Violations {
				fmt.Printf("VIOLATION-IN-REPLAY %s\n%s\n", v.Sig, v.Detail)
				r.Violate(strings.SplitN(v.Sig, "::", 2)[1], v.Detail, v.Replay)
			}
			fmt.Println("outcomes:", res.OutcomeList())
			r.Case("replay", rep.Scenario)
			r.Distinct("replay2")
		}
		return
	}
	if only := os.Getenv("VERIF_ONLY"); only != "" {
		// debugging aid: restrict to the scenarios whose name contains the given text
		var keep []pwScenario
		for _, sc := range scs {
			if strings.Contains(sc.Name, only) {
				keep = append(keep, sc)
			}
		}
		scs = keep
	}
	mine := 0
	for i := range scs {
		if i%sn == si {
			mine++
		}
	}
	for i := range scs {
		if i%sn != si {
			continue
		}
		sc := &scs[i]
		steps := sc.Steps
		if steps == 0 {
			steps = 1500
		}
		// time slicing: every scenario of this shard gets an equal share of what is left of the budget (what a scenario does
		// not use is passed on), so that a late scenario is explored - possibly partially - rather than never started
		slice := time.Until(dl) / time.Duration(max(mine, 1))
		mine--
		sdl := time.Now().Add(slice)
		if sdl.After(dl) || mine == 0 {
			sdl = dl
		}
		cfg := vrt.Config{Name: sc.Name, Budget: sc.Budget, MaxSteps: steps, Prune: true, Deadline: sdl, Delay: true}
		body := pwBody(sc, or)
		res := vrt.Explore(cfg, body)
		pwReport(r, cfg, res, body, t, prop)
		var thr []string
		for _, th := range sc.Threads {
			thr = append(thr, fmt.Sprint(th))
		}
		r.Case(fmt.Sprintf("%s/%d", sc.Name, len(res.Outcomes)), map[string]any{"scenario": sc.Name, "config": sc.Cfg.String(), "threads": thr, "after": fmt.Sprint(sc.After), "budget": sc.Budget, "faults": sc.Faults,
			"executions": res.Execs, "pruned": res.Pruned, "truncated": res.Truncated, "states": res.States, "distinct_outcomes": len(res.Outcomes), "max_depth": res.MaxDepth, "exhaustive": res.Exhaustive, "outcomes": pwFew(res)})
		for o := range res.Outcomes {
			r.Distinct(sc.Name + "|" + o)
		}
		r.Set("outcomes/"+sc.Name, len(res.Outcomes))
		if !res.Exhaustive {
			r.NotExhaustive()
		}
		if time.Now().After(dl) {
			r.NotExhaustive()
			break
		}
	}
}

// pwFew lists the observed outcomes when there are few of them (reading aid against vacuous scenarios).
func pwFew(res *vrt.Result) []string {
	if len(res.Outcomes) > 4 {
		return nil
	}
	return res.OutcomeList()
}
