//go:build verif

package eni

import (
	"context"

	"sigs.k8s.io/controller-runtime/pkg/client"

	networkv1beta1 "github.com/AliyunContainerService/terway/pkg/apis/network.alibabacloud.com/v1beta1"
	"github.com/AliyunContainerService/terway/types"
)

// VerifNewCRDV2 builds the daemon's CRD-mode backend on a given client (the real NewCRDV2 needs a
// kubeconfig and a controller-runtime manager). Injected through -overlay for the /verif harness only.
func VerifNewCRDV2(c client.Client, nodeName string) *CRDV2 {
	return &CRDV2{scheme: types.Scheme, client: c, nodeName: nodeName, deletedPods: make(map[string]*networkv1beta1.RuntimePodStatus)}
}

// VerifFlush is one firing of the 3 s status-report loop.
func (r *CRDV2) VerifFlush(ctx context.Context) error { return r.syncNodeRuntime(ctx) }

// VerifSyncDeletedPods is one firing of the 5 min reconciliation loop.
func (r *CRDV2) VerifSyncDeletedPods(ctx context.Context) error { return r.syncDeletedPods(ctx) }

// VerifPending lists the pod UIDs whose teardown is recorded but not yet reported.
func (r *CRDV2) VerifPending() []string {
	r.lock.Lock()
	defer r.lock.Unlock()
	var out []string
	for k := range r.deletedPods {
		out = append(out, k)
	}
	return out
}
