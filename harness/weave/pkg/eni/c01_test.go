//go:build verif

package eni

import (
	"fmt"
	"testing"

	"github.com/AliyunContainerService/terway/internal/verif/ev"
	"github.com/AliyunContainerService/terway/types/daemon"
)

func ops(s ...string) []pwOp {
	var out []pwOp
	for _, x := range s {
		var o pwOp
		switch {
		case len(x) > 4 && x[:4] == "add:":
			o = pwOp{Kind: "add", Pod: x[4:]}
		case len(x) > 6 && x[:6] == "addce:":
			o = pwOp{Kind: "addce", Pod: x[6:]}
		case len(x) > 5 && x[:5] == "addc:":
			o = pwOp{Kind: "addc", Pod: x[5:]}
		case len(x) > 4 && x[:4] == "del:":
			o = pwOp{Kind: "del", Pod: x[4:]}
		case len(x) > 7 && x[:7] == "cancel:":
			o = pwOp{Kind: "cancel", Pod: x[7:]}
		case x == "syncpool":
			o = pwOp{Kind: "syncpool"}
		case len(x) > 6 && x[:6] == "lsync:":
			o = pwOp{Kind: "lsync", N: int(x[6] - '0')}
		case len(x) > 9 && x[:9] == "hidenext:":
			o = pwOp{Kind: "hidenext", N: int(x[9] - '0')}
		case len(x) > 12 && x[:12] == "rremoveheld:":
			o = pwOp{Kind: "rremoveheld", Pod: x[12:]}
		case len(x) > 8 && x[:8] == "rremove:":
			o = pwOp{Kind: "rremove", N: int(x[8] - '0')}
		case len(x) > 8 && x[:8] == "advance:":
			n := 0
			for _, c := range x[8:] {
				n = n*10 + int(c-'0')
			}
			o = pwOp{Kind: "advance", N: n}
		default:
			panic("bad op " + x)
		}
		out = append(out, o)
	}
	return out
}

type pwStack struct {
	name   string
	v4, v6 bool
}

var pwStacks = []pwStack{{"v4", true, false}, {"dual", true, true}, {"v6", false, true}}

func pre(v4, v6 int, st pwStack, kind string) pwPre {
	p := pwPre{Kind: kind}
	if st.v4 {
		p.V4 = v4
	} else {
		p.V4 = 1 // an interface always has its primary IPv4
	}
	if st.v6 {
		p.V6 = v6
		if !st.v4 {
			p.V6 = v4
		}
	}
	return p
}

func c01Scenarios(thorough bool) []pwScenario {
	var out []pwScenario
	pb := 2
	stacks := pwStacks[:2]
	policies := []daemon.EniSelectionPolicy{daemon.EniSelectionPolicyMostIPs}
	if thorough {
		pb = 3
		stacks = pwStacks
		policies = append(policies, daemon.EniSelectionPolicyLeastIPs)
	}
	for _, st := range stacks {
		for _, pol := range policies {
			base := pwCfg{V4: st.v4, V6: st.v6, Cap: 3, Batch: 2, MinIdle: 0, MaxIdle: 5, Slots: 2, Policy: pol}
			one := base
			one.Pre = []pwPre{pre(1, 1, st, "secondary")} // exactly one idle address (pair), one free slot
			n := st.name + "/" + string(pol)
			out = append(out,
				pwScenario{Name: "S1-add||add/" + n, Cfg: one, Threads: [][]pwOp{ops("add:a"), ops("add:b")}, Budget: [4]int{pb, 1, 0, 0}},
				pwScenario{Name: "S2-add;del||add/" + n, Cfg: one, Threads: [][]pwOp{ops("add:a", "del:a"), ops("add:b")}, Budget: [4]int{pb, 1, 0, 0}},
				pwScenario{Name: "S3-add;add||add/" + n, Cfg: one, Threads: [][]pwOp{ops("add:a", "add:a"), ops("add:b")}, Budget: [4]int{pb, 1, 0, 0}},
				pwScenario{Name: "S6-addcancel||add/" + n, Cfg: one, Threads: [][]pwOp{ops("addce:a"), ops("add:b")}, Budget: [4]int{pb - 1, 0, 0, 1}},
			)
			if st.v4 && st.v6 {
				// asymmetric idle sets: more idle IPv4 than IPv6 and vice versa (a waiter holds one family while waiting for the other)
				for _, asym := range [][2]int{{2, 0}, {3, 1}, {1, 2}} {
					as := base
					as.Pre = []pwPre{{V4: asym[0], V6: asym[1], Kind: "secondary"}}
					an := fmt.Sprintf("%s/v4=%d,v6=%d", n, asym[0], asym[1])
					out = append(out,
						pwScenario{Name: "S1a-add||add(asym)/" + an, Cfg: as, Threads: [][]pwOp{ops("add:a"), ops("add:b")}, Budget: [4]int{pb, 1, 0, 0}},
						pwScenario{Name: "S2a-add;del||add||add(asym)/" + an, Cfg: as, Threads: [][]pwOp{ops("add:a", "del:a"), ops("add:b"), ops("add:c")}, Budget: [4]int{pb - 1, 1, 0, 0}},
					)
				}
			}
			dis := base
			dis.MaxIdle = 0
			dis.Pre = []pwPre{pre(2, 2, st, "secondary")}
			out = append(out, pwScenario{Name: "S4-add||syncpool(maxIdle0)/" + n, Cfg: dis, Threads: [][]pwOp{ops("add:a"), ops("syncpool")}, After: ops("add:b"), Budget: [4]int{pb, 1, 0, 0}})
			rr := base
			rr.Pre = []pwPre{pre(2, 2, st, "secondary")}
			out = append(out, pwScenario{Name: "S5-remoteremove;sync||add/" + n, Cfg: rr, Threads: [][]pwOp{ops("rremove:0", "lsync:0"), ops("add:a"), ops("add:b")}, After: ops("lsync:0", "add:c"), Budget: [4]int{pb - 1, 1, 0, 0}})
			flt := one
			out = append(out, pwScenario{Name: "S7-faulty-assign||two-waiters/" + n, Cfg: flt, Threads: [][]pwOp{ops("add:a"), ops("add:b"), ops("add:c")}, Budget: [4]int{1, 0, 1, 0}, Faults: true})
			rs := base
			rs.Pre = []pwPre{pre(3, 2, st, "secondary")}
			rs.Stored = map[string]int{"a": 0}
			out = append(out, pwScenario{Name: "S8-restart;repeat-add||add/" + n, Cfg: rs, Threads: [][]pwOp{ops("add:a"), ops("add:b")}, After: ops("del:a", "add:c"), Budget: [4]int{pb, 1, 0, 0}})
		}
	}
	if !thorough {
		// quick: the other selection policy at least for the repeat-ADD scenarios (a request pinned to the interface the
		// pod already uses meets an empty slot that sorts FIRST under least_ips)
		for _, st := range stacks {
			base := pwCfg{V4: st.v4, V6: st.v6, Cap: 3, Batch: 2, MinIdle: 0, MaxIdle: 5, Slots: 2, Policy: daemon.EniSelectionPolicyLeastIPs}
			one := base
			one.Pre = []pwPre{pre(1, 1, st, "secondary")}
			rs := base
			rs.Pre = []pwPre{pre(3, 2, st, "secondary")}
			rs.Stored = map[string]int{"a": 0}
			n := st.name + "/" + string(daemon.EniSelectionPolicyLeastIPs)
			out = append(out,
				pwScenario{Name: "S3-add;add||add/" + n, Cfg: one, Threads: [][]pwOp{ops("add:a", "add:a"), ops("add:b")}, Budget: [4]int{1, 0, 0, 0}},
				pwScenario{Name: "S8-restart;repeat-add||add/" + n, Cfg: rs, Threads: [][]pwOp{ops("add:a"), ops("add:b")}, After: ops("del:a", "add:c"), Budget: [4]int{1, 0, 0, 0}})
		}
	}
	return out
}

func TestVerifC01(t *testing.T) {
	r := ev.New("C01", "pool-interleavings")
	defer r.Flush()
	r.Rule("real eni.Manager over real eni.Local instances (pkg/eni instrumented: every mutex/cond/channel/select/go/map-range/timer operation reports to the cooperative scheduler) on a simulated factory; scenarios S1-S8 (2-3 client threads forced onto one idle address and one free interface slot) x IP stack x selection policy; all interleavings within the preemption/order/fault budgets with happens-before state caching; oracle = event ledger at every ADD acknowledgement (no address on two live pods, address assigned in the cloud to that attached interface and not taken away by the daemon, not handed out after a sync saw it removed, repeat ADD = same address) and Status()==ledger at quiescence; distinct = (scenario, observed outcome incl. cloud call sequence)")
	pwRun(r, t, "C01", c01Scenarios(ev.Thorough()), "C01")
}
