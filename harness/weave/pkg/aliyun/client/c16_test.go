//go:build verif

package client

import (
	"fmt"
	"strings"
	"testing"
	"time"

	"github.com/AliyunContainerService/terway/internal/verif/ev"
	vrt "github.com/AliyunContainerService/terway/internal/verif/rt"
)

func verifReport(r *ev.Rec, cfg vrt.Config, res *vrt.Result, body func(*vrt.Exec), t *testing.T) {
	if res.HarnessErr != "" {
		t.Fatalf("harness error in %s: %s", cfg.Name, res.HarnessErr)
	}
	if len(res.Violations) > 0 {
		vrt.Confirm(cfg, res, body, 5)
		if res.HarnessErr != "" {
			t.Fatalf("harness error in %s: %s", cfg.Name, res.HarnessErr)
		}
	}
	for _, v := range res.Violations {
		sig := v.Sig
		if i := strings.Index(sig, "::"); i >= 0 {
			sig = sig[i+2:]
		}
		r.Violate(sig, v.Detail, v.Replay)
	}
	r.States(res.States)
	r.Transitions(res.Steps)
	r.Traces(res.Execs)
	r.Add("executions", res.Execs)
	r.Add("pruned", res.Pruned)
	r.Add("truncated", res.Truncated)
	if !res.Exhaustive {
		r.NotExhaustive()
	}
}

// a parameter set: which builder, with which arguments
type verifParam struct {
	name string
	mk   func(gen IdempotentKeyGen) (token string, rollback func(), err error)
}

func verifTags(n int) map[string]string {
	m := map[string]string{}
	for i := 0; i < n; i++ {
		m[fmt.Sprintf("k%d", i)] = fmt.Sprintf("v%d", i)
	}
	return m
}

func verifParams() []verifParam {
	var ps []verifParam
	for ntags := 0; ntags <= 3; ntags++ {
		for _, sgs := range [][]string{{"sg-1"}, {"sg-1", "sg-2"}} {
			for _, cnt := range []int{1, 2} {
				ntags, sgs, cnt := ntags, sgs, cnt
				ps = append(ps, verifParam{fmt.Sprintf("create(tags=%d,sg=%d,ip=%d)", ntags, len(sgs), cnt), func(gen IdempotentKeyGen) (string, func(), error) {
					o := &CreateNetworkInterfaceOptions{NetworkInterfaceOptions: &NetworkInterfaceOptions{VSwitchID: "vsw-1", SecurityGroupIDs: append([]string{}, sgs...), IPCount: cnt, Tags: verifTags(ntags)}}
					req, rb, err := o.Finish(gen)
					if err != nil {
						return "", nil, err
					}
					return req.ClientToken, rb, nil
				}})
			}
		}
	}
	for _, zone := range []string{"z1", "z2"} {
		zone := zone
		ps = append(ps, verifParam{"createEFLO(" + zone + ")", func(gen IdempotentKeyGen) (string, func(), error) {
			o := &CreateNetworkInterfaceOptions{NetworkInterfaceOptions: &NetworkInterfaceOptions{VSwitchID: "vsw-1", SecurityGroupIDs: []string{"sg-1"}, IPCount: 1, ZoneID: zone, InstanceID: "i-1", Tags: verifTags(2)}}
			req, rb, err := o.EFLO(gen)
			if err != nil {
				return "", nil, err
			}
			return req.ClientToken, rb, nil
		}})
	}
	for _, eni := range []string{"eni-1", "eni-2"} {
		for _, cnt := range []int{1, 2} {
			eni, cnt := eni, cnt
			ps = append(ps, verifParam{fmt.Sprintf("assign(%s,%d)", eni, cnt), func(gen IdempotentKeyGen) (string, func(), error) {
				o := &AssignPrivateIPAddressOptions{NetworkInterfaceOptions: &NetworkInterfaceOptions{NetworkInterfaceID: eni, IPCount: cnt}}
				req, rb, err := o.Finish(gen)
				if err != nil {
					return "", nil, err
				}
				return req.ClientToken, rb, nil
			}})
			ps = append(ps, verifParam{fmt.Sprintf("assign6(%s,%d)", eni, cnt), func(gen IdempotentKeyGen) (string, func(), error) {
				o := &AssignIPv6AddressesOptions{NetworkInterfaceOptions: &NetworkInterfaceOptions{NetworkInterfaceID: eni, IPv6Count: cnt}}
				req, rb, err := o.Finish(gen)
				if err != nil {
					return "", nil, err
				}
				return req.ClientToken, rb, nil
			}})
		}
		ps = append(ps, verifParam{"assignEFLO(" + eni + ")", func(gen IdempotentKeyGen) (string, func(), error) {
			o := &AssignPrivateIPAddressOptions{NetworkInterfaceOptions: &NetworkInterfaceOptions{NetworkInterfaceID: eni, IPCount: 1}}
			req, rb, err := o.EFLO(gen)
			if err != nil {
				return "", nil, err
			}
			return req.ClientToken, rb, nil
		}})
	}
	return ps
}

// verifLedger is the reference model: failed tokens per parameter set, tokens of unfinished requests.
type verifLedger struct {
	x        *vrt.Exec
	pool     map[string][]string // param -> tokens handed back
	inflight map[string]string   // token -> param
	owner    map[string]string   // token -> the parameter set it was first issued for
	canon    map[string]string
	events   []string
}

func newVerifLedger(x *vrt.Exec) *verifLedger {
	return &verifLedger{x: x, pool: map[string][]string{}, inflight: map[string]string{}, owner: map[string]string{}, canon: map[string]string{}}
}
func (l *verifLedger) name(tok string) string {
	if c, ok := l.canon[tok]; ok {
		return c
	}
	c := fmt.Sprintf("t%d", len(l.canon))
	l.canon[tok] = c
	return c
}
func (l *verifLedger) issued(p, tok string) {
	l.events = append(l.events, fmt.Sprintf("issue(%s)=%s", p, l.name(tok)))
	if tok == "" {
		l.x.Failf("token/empty", "request for %s carries an empty client token", p)
	}
	if q, ok := l.inflight[tok]; ok {
		l.x.Failf("token/shared-by-two-inflight-requests", "token %s issued for %s while the unfinished request for %s still carries it; history %v", l.name(tok), p, q, l.events)
	}
	if o, ok := l.owner[tok]; ok && o != p {
		l.x.Failf("token/shared-across-parameter-sets", "token %s first issued for %s is now issued for %s; history %v", l.name(tok), o, p, l.events)
	}
	pl := l.pool[p]
	found := -1
	for i, t := range pl {
		if t == tok {
			found = i
		}
	}
	if len(pl) > 0 && found < 0 {
		l.x.Failf("token/retry-not-reused", "retry of %s got token %s although the failed attempt(s) handed back %v; history %v", p, l.name(tok), l.names(pl), l.events)
	}
	if found >= 0 {
		l.pool[p] = append(append([]string{}, pl[:found]...), pl[found+1:]...)
	} else if _, seen := l.owner[tok]; seen && len(pl) == 0 {
		l.x.Failf("token/reissued-after-success-or-while-held", "token %s issued again for %s although it was neither handed back nor fresh; history %v", l.name(tok), p, l.events)
	}
	l.owner[tok] = p
	l.inflight[tok] = p
}
func (l *verifLedger) names(ts []string) []string {
	var o []string
	for _, t := range ts {
		o = append(o, l.name(t))
	}
	return o
}

// beforeFail must be called before the rollback func runs (afterwards another request may take the token).
func (l *verifLedger) beforeFail(p, tok string) {
	l.events = append(l.events, fmt.Sprintf("fail(%s,%s)", p, l.name(tok)))
	delete(l.inflight, tok)
}

// afterFail is called right after the rollback func returned: no scheduling point lies between the
// generator's own update and this one, so the reference pool changes atomically with the real one.
func (l *verifLedger) afterFail(p, tok string) {
	l.pool[p] = append(l.pool[p], tok)
}
func (l *verifLedger) succeed(p, tok string) {
	l.events = append(l.events, fmt.Sprintf("ok(%s,%s)", p, l.name(tok)))
	delete(l.inflight, tok)
}

func TestVerifC16Histories(t *testing.T) {
	r := ev.New("C16", "histories")
	defer r.Flush()
	depth, ob := 4, 1
	if ev.Thorough() {
		depth, ob = 6, 2
	}
	r.Rule(fmt.Sprintf("for every builder (CreateNetworkInterface Finish/EFLO, AssignPrivateIP Finish/EFLO, AssignIPv6 Finish) and every pair of parameter sets (tags 0..3, 1-2 security groups, counts 1-2, two ENI ids/zones): all histories of length <=%d over {issue(P1), issue(P2), fail(oldest unfinished), fail(newest unfinished), succeed(oldest)} with the real SimpleIdempotentKeyGenerator; the tag map's iteration order at every issue is an explorer choice (<=%d non-default orders per history, all n! permutations); oracle = reference ledger: a retry gets a token its failed attempt handed back, unfinished requests never share a token, parameter sets never share a token", depth, ob))
	ps := verifParams()
	// pairs: every create variant against itself-with-other-count and against one assign; keeps the product small but covers every builder
	type pair struct{ a, b verifParam }
	var pairs []pair
	for i := range ps {
		j := (i + 1) % len(ps)
		pairs = append(pairs, pair{ps[i], ps[j]})
	}
	ops := []string{"i1", "i2", "fo", "fn", "so"}
	var seqs [][]string
	var rec func(cur []string, open int)
	rec = func(cur []string, open int) {
		if len(cur) > 0 {
			seqs = append(seqs, append([]string{}, cur...))
		}
		if len(cur) == depth {
			return
		}
		for _, o := range ops {
			switch o {
			case "i1", "i2":
				rec(append(cur, o), open+1)
			default:
				if open > 0 {
					rec(append(cur, o), open-1)
				}
			}
		}
	}
	rec(nil, 0)
	r.Set("histories_per_pair", len(seqs))
	r.Set("pairs", len(pairs))
	dl := ev.Deadline(100*time.Second, 20*time.Minute)
	for _, pr := range pairs {
		for _, seq := range seqs {
			if time.Now().After(dl) {
				r.NotExhaustive()
				return
			}
			name := fmt.Sprintf("hist/%s|%s/%s", pr.a.name, pr.b.name, strings.Join(seq, ","))
			cfg := vrt.Config{Name: name, Budget: [4]int{0, ob, 0, 0}, MaxSteps: 400}
			body := func(x *vrt.Exec) {
				gen := NewIdempotentKeyGenerator()
				led := newVerifLedger(x)
				type open struct {
					p, tok string
					rb     func()
				}
				var opn []open
				for _, o := range seq {
					switch o {
					case "i1", "i2":
						p := pr.a
						if o == "i2" {
							p = pr.b
						}
						tok, rb, err := p.mk(gen)
						if err != nil {
							x.Failf("builder/error", "%s: %v", p.name, err)
							return
						}
						led.issued(p.name, tok)
						opn = append(opn, open{p.name, tok, rb})
					case "fo":
						q := opn[0]
						opn = opn[1:]
						led.beforeFail(q.p, q.tok)
						q.rb()
						led.afterFail(q.p, q.tok)
					case "fn":
						q := opn[len(opn)-1]
						opn = opn[:len(opn)-1]
						led.beforeFail(q.p, q.tok)
						q.rb()
						led.afterFail(q.p, q.tok)
					case "so":
						q := opn[0]
						opn = opn[1:]
						led.succeed(q.p, q.tok)
					}
				}
				x.Outcome(strings.Join(led.events, " "))
			}
			res := vrt.Explore(cfg, body)
			verifReport(r, cfg, res, body, t)
			r.Case(fmt.Sprintf("%s/%d", strings.Join(seq, ","), len(res.Outcomes)), map[string]any{"params": []string{pr.a.name, pr.b.name}, "history": seq, "outcomes": res.OutcomeList()})
		}
	}
}

func TestVerifC16Concurrent(t *testing.T) {
	r := ev.New("C16", "concurrent")
	defer r.Flush()
	pb := 2
	if ev.Thorough() {
		pb = 5
	}
	r.Rule(fmt.Sprintf("2 and 3 threads, each: issue(P); rollback; issue(P) again; succeed — on equal parameters (all collide on one hash) and on different parameters, for CreateNetworkInterface (2 tags) and AssignPrivateIP builders over one real generator whose mutex and LRU operations are scheduling points; all interleavings with <=%d preemptions, <=1 order deviation, happens-before state caching; oracle: the reference ledger evaluated after every operation", pb))
	ps := verifParams()
	byName := map[string]verifParam{}
	for _, p := range ps {
		byName[p.name] = p
	}
	scen := [][]string{
		{"assign(eni-1,1)", "assign(eni-1,1)"},
		{"assign(eni-1,1)", "assign(eni-1,1)", "assign(eni-1,1)"},
		{"assign(eni-1,1)", "assign(eni-2,1)"},
		{"create(tags=2,sg=1,ip=1)", "create(tags=2,sg=1,ip=1)"},
		{"create(tags=2,sg=1,ip=1)", "create(tags=2,sg=1,ip=2)", "create(tags=2,sg=1,ip=1)"},
	}
	for _, sc := range scen {
		name := "conc/" + strings.Join(sc, "|")
		cfg := vrt.Config{Name: name, Budget: [4]int{pb, 1, 0, 0}, MaxSteps: 1500, Prune: true, Deadline: ev.Deadline(60*time.Second, 15*time.Minute)}
		body := func(x *vrt.Exec) {
			gen := NewIdempotentKeyGenerator()
			led := newVerifLedger(x)
			var wg vrt.WaitGroup
			for _, pn := range sc {
				p := byName[pn]
				wg.Add(1)
				vrt.Go(func() {
					defer wg.Done()
					tok, rb, err := p.mk(gen)
					if err != nil {
						x.Failf("builder/error", "%v", err)
						return
					}
					led.issued(p.name, tok)
					vrt.Yield() // the cloud call
					led.beforeFail(p.name, tok)
					rb()
					led.afterFail(p.name, tok)
					tok2, _, err := p.mk(gen)
					if err != nil {
						x.Failf("builder/error", "%v", err)
						return
					}
					led.issued(p.name, tok2)
					vrt.Yield()
					led.succeed(p.name, tok2)
				})
			}
			wg.Wait()
			x.Outcome(strings.Join(led.events, " "))
		}
		res := vrt.Explore(cfg, body)
		verifReport(r, cfg, res, body, t)
		r.Set("outcomes/"+name, len(res.Outcomes))
		r.Case(name, map[string]any{"scenario": name, "executions": res.Execs, "states": res.States, "distinct_outcomes": len(res.Outcomes), "per_bound": res.PerBound})
		for o := range res.Outcomes {
			r.Distinct(name + o)
		}
	}
}
