//go:build verif

package daemon

import (
	"encoding/json"
	"fmt"
	"strings"
	"testing"

	"github.com/vishvananda/netlink"

	"github.com/AliyunContainerService/terway/internal/verif/ev"
	"github.com/AliyunContainerService/terway/pkg/link"
	vrt "github.com/AliyunContainerService/terway/internal/verif/rt"
	"github.com/AliyunContainerService/terway/internal/verif/simcloud"
	"github.com/AliyunContainerService/terway/pkg/storage"
	"github.com/AliyunContainerService/terway/rpc"
	"github.com/AliyunContainerService/terway/types/daemon"
)

// TestVerifC15Records: what the daemon does with whatever it finds in its own database.
func TestVerifC15Records(t *testing.T) {
	r := ev.New("C15", "stored-records")
	defer r.Flush()
	r.Rule(fmt.Sprintf("every record obtained from a complete dual-stack record (resources, pod info, sandbox, container id, stored network configuration) by replacing or removing one node of its JSON tree, or one node of the JSON tree of the network configuration stored inside it, with each of %d alternatives, plus legacy-shaped records (no interface id, resource id in 'mac.ip' form with malformed mac / ip parts); each is decoded exactly as daemon/builder.go decodes database values (a decode error = rejected) and placed in the store x pod {running, vanished}; then the REAL start-up path (getPodResources, filterENINotFound, Manager.Run -> Local.load), gcPods twice (private network namespace), GetIPInfo, AllocIP, ReleaseIP for the pod and the Trace() dump run on the real pool; oracle: no panic anywhere (errors are fine)", len(ev.JSONAlternatives)+1))
	cloud0 := simcloud.NewNode()
	e0 := cloud0.AddENI(3, 3, false, false)
	nc := []*rpc.NetConf{{BasicInfo: &rpc.BasicInfo{PodIP: &rpc.IPSet{IPv4: e0.V4[1].String(), IPv6: e0.V6[1].String()}, PodCIDR: &rpc.IPSet{IPv4: "10.0.0.0/16", IPv6: "fd00::/64"}, GatewayIP: &rpc.IPSet{IPv4: "10.0.255.253", IPv6: "fd00::fffd"}, ServiceCIDR: &rpc.IPSet{IPv4: "172.16.0.0/16"}},
		ENIInfo: &rpc.ENIInfo{MAC: e0.MAC, Trunk: false, Vid: 0, GatewayIP: &rpc.IPSet{IPv4: "10.0.255.253"}}, Pod: &rpc.Pod{Ingress: 1, Egress: 2, NetworkPriority: "best-effort"}, IfName: "eth0", ExtraRoutes: []*rpc.Route{{Dst: "10.9.0.0/16"}}, DefaultRoute: true}}
	ncb, _ := json.Marshal(nc)
	cid, nsPath := "c-p", "/proc/1/ns/net"
	full := daemon.PodResources{PodInfo: &daemon.PodInfo{Name: "p", Namespace: "ns", PodNetworkType: daemon.PodNetworkTypeENIMultiIP, PodUID: "uid-p", TcIngress: 1, TcEgress: 2, NetworkPriority: "best-effort"}, ContainerID: &cid, NetNs: &nsPath, NetConf: string(ncb),
		Resources: []daemon.ResourceItem{{Type: daemon.ResourceTypeENIIP, ID: e0.MAC + "." + e0.V4[1].String(), ENIID: e0.ID, ENIMAC: e0.MAC, IPv4: e0.V4[1].String(), IPv6: e0.V6[1].String()}}}
	fb, _ := json.Marshal(full)
	type doc struct{ raw, desc string }
	var docs []doc
	ev.JSONMutations(string(fb), 1, func(m, d string) { docs = append(docs, doc{m, d}) })
	// one mutation inside the stored network configuration
	ev.JSONMutations(string(ncb), 1, func(m, d string) {
		c := full
		c.NetConf = m
		b, _ := json.Marshal(c)
		docs = append(docs, doc{string(b), "NetConf:" + d})
	})
	for _, s := range []string{"", "x", "[", "null", "[null]", `[{}]`, `{}`} {
		c := full
		c.NetConf = s
		b, _ := json.Marshal(c)
		docs = append(docs, doc{string(b), "NetConf-text:" + s})
	}
	// legacy records: the resource id carries mac and address
	for _, id := range []string{"", ".", "..", e0.MAC, e0.MAC + ".", "." + e0.V4[1].String(), e0.MAC + ".x", e0.MAC + ".10.0.0.999", e0.MAC + "." + e0.V4[1].String() + ".1", "zz." + e0.V4[1].String(), e0.MAC + ".fd00::1"} {
		c := full
		c.Resources = []daemon.ResourceItem{{Type: daemon.ResourceTypeENIIP, ID: id}}
		b, _ := json.Marshal(c)
		docs = append(docs, doc{string(b), "legacy-id:" + id})
	}
	si, sn := ev.Shard()
	for di, d := range docs {
		if di%sn != si {
			continue
		}
		rec := &daemon.PodResources{}
		if err := json.Unmarshal([]byte(d.raw), rec); err != nil {
			r.Case("rejected-by-decoder", d.desc)
			continue
		}
		for _, running := range []bool{true, false} {
			running := running
			stage := "start"
			res := vrt.RunOnce("records", 40000, func(x *vrt.Exec) {
				vrt.Freeze(true)
				cloud := simcloud.NewNode()
				e := cloud.AddENI(3, 3, false, false)
				c09SetLoMAC(x, e.MAC)
				if running {
					// a running pod has its host-side veth: ruleSync re-applies the policy routes from the stored configuration
					hv, _ := link.VethNameForPod("p", "ns", "eth0", "cali")
					if _, err := netlink.LinkByName(hv); err != nil {
						_ = netlink.LinkAdd(&netlink.Veth{LinkAttrs: netlink.LinkAttrs{Name: hv}, PeerName: "peer0"})
					}
				}
				db := storage.NewMemoryStorage()
				_ = db.Put("ns/p", *rec)
				k := &verifK8s{pods: map[string]*verifPod{"ns/p": {uid: "uid-p", present: running, local: running}}, existErr: map[string]bool{}}
				w := newDW(x, dwCfg{V4: true, V6: true, Cap: 3, Batch: 1, Slots: 2, MaxIdle: 5}, db, cloud, k)
				if x.Failed() {
					return
				}
				stage = "gc"
				_ = w.svc.gcPods(w.ctx)
				_ = w.svc.gcPods(w.ctx)
				stage = "GetIPInfo"
				w.get(w.ctx, "p", "c-p")
				stage = "Trace"
				_ = w.svc.Trace()
				if running {
					stage = "AllocIP"
					w.add(w.ctx, "p", "c-p")
					stage = "ReleaseIP"
					w.del(w.ctx, "p", "c-p")
				}
				stage = "done"
				vrt.WaitQuiescent()
			})
			in := map[string]any{"record": d.raw, "mutation": d.desc, "pod_running": running}
			if res.HarnessErr != "" {
				t.Fatalf("record %s: %s", d.desc, res.HarnessErr)
			}
			for _, v := range res.Violations {
				sig := strings.SplitN(v.Sig, "::", 2)[1]
				if strings.HasPrefix(sig, "panic/") {
					sig = "C15/stored-record-panic/" + stage + "/" + c15PanicSite(v.Detail)
				}
				if strings.HasPrefix(sig, "harness/run") {
					// Manager.Run returned an error: the daemon refuses to start and says why
					r.Case("startup-error", d.desc)
					continue
				}
				r.Violate(sig, fmt.Sprintf("record %s (%s), pod running=%v, during %s: %s", d.raw, d.desc, running, stage, v.Detail), in)
			}
			r.Case(fmt.Sprintf("ok/%v/%s", running, strings.SplitN(d.desc, "=", 2)[0]), d.desc)
		}
	}
	r.Set("documents", len(docs))
}

// c15PanicSite names the terway function on top of the panicking stack.
func c15PanicSite(stack string) string {
	seenPanic := false
	for _, l := range strings.Split(stack, "\n") {
		l = strings.TrimSpace(l)
		if strings.HasPrefix(l, "panic(") {
			seenPanic = true
			continue
		}
		if seenPanic && strings.HasPrefix(l, "github.com/AliyunContainerService/terway/") && !strings.Contains(l, "/internal/verif/") {
			f := strings.TrimPrefix(l, "github.com/AliyunContainerService/terway/")
			if i := strings.Index(f, "("); i > 0 && !strings.HasPrefix(f[i:], "(*") {
				f = f[:i]
			} else if j := strings.LastIndex(f, "("); j > 0 {
				f = f[:j]
			}
			return f
		}
	}
	return "unknown"
}
