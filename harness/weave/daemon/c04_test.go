//go:build verif

package daemon

import (
	"context"
	"fmt"
	"sort"
	"strings"
	"testing"
	"time"

	"github.com/AliyunContainerService/terway/internal/verif/ev"
	vrt "github.com/AliyunContainerService/terway/internal/verif/rt"
	"github.com/AliyunContainerService/terway/internal/verif/simcloud"
	"github.com/AliyunContainerService/terway/pkg/storage"
)

// ---- sequential reference of the per-pod record, and brute-force linearizability

type c04Rec struct{ cid, ips string }

type c04Model map[string]c04Rec

func (m c04Model) clone() c04Model {
	n := c04Model{}
	for k, v := range m {
		n[k] = v
	}
	return n
}

// step applies one observed reply to the model; ok=false if the reply is not what the sequential spec allows here.
func (m c04Model) step(r dwReply) (c04Model, bool, string) {
	rec, has := m[r.Pod]
	switch r.Op {
	case "ADD":
		if r.Err != "" {
			return m, true, "" // a failed ADD has no effect
		}
		if r.IPs == "" || r.NConf == 0 {
			return m, false, "successful ADD without addresses"
		}
		if has {
			if rec.ips != r.IPs {
				return m, false, fmt.Sprintf("repeated ADD got %s, the pod's record holds %s", r.IPs, rec.ips)
			}
		} else {
			for q, o := range m {
				for _, a := range splitIPs(o.ips) {
					for _, b := range splitIPs(r.IPs) {
						if a == b {
							return m, false, fmt.Sprintf("ADD got %s which pod %s holds", b, q)
						}
					}
				}
			}
		}
		n := m.clone()
		n[r.Pod] = c04Rec{r.CID, r.IPs}
		return n, true, ""
	case "DEL":
		if r.Err != "" {
			return m, false, "DEL answered an error"
		}
		if has && rec.cid == r.CID {
			n := m.clone()
			delete(n, r.Pod)
			return n, true, ""
		}
		return m, true, ""
	case "GET":
		if r.Err != "" {
			return m, false, "GET answered an error"
		}
		if has && rec.cid == r.CID {
			if r.IPs != rec.ips {
				return m, false, fmt.Sprintf("GET returned %q, the record holds %s", r.IPs, rec.ips)
			}
			return m, true, ""
		}
		if r.NConf != 0 {
			return m, false, fmt.Sprintf("GET with sandbox %s returned %q although the record belongs to sandbox %q", r.CID, r.IPs, rec.cid)
		}
		return m, true, ""
	}
	return m, false, "?"
}

// linearize searches an order of the effective replies that respects real time and the sequential spec
// and ends in the observed final records.
func c04Linearize(init c04Model, rs []dwReply, final map[string]string) (bool, string) {
	var eff []dwReply
	for _, r := range rs {
		if r.Err == "processing" {
			overl := false
			for _, o := range rs {
				if o.Pod == r.Pod && !(o.Inv == r.Inv && o.Op == r.Op && o.CID == r.CID) && o.Inv < r.Ret && r.Inv < o.Ret {
					overl = true
				}
			}
			if !overl {
				return false, fmt.Sprintf("%v answered 'processing' while no other request for the pod was in flight", r)
			}
			continue
		}
		eff = append(eff, r)
	}
	used := make([]bool, len(eff))
	lastWhy := ""
	var rec func(m c04Model, n int) bool
	rec = func(m c04Model, n int) bool {
		if n == len(eff) {
			got := map[string]string{}
			for p, r := range m {
				got[p] = r.cid + "|" + r.ips
			}
			if fmt.Sprint(got) != fmt.Sprint(final) {
				lastWhy = fmt.Sprintf("final records %v differ from what the replies imply %v", final, got)
				return false
			}
			return true
		}
		for i, r := range eff {
			if used[i] {
				continue
			}
			// real-time order: every unused op that returned before r was invoked must come first
			okRT := true
			for j, o := range eff {
				if !used[j] && j != i && o.Ret < r.Inv {
					okRT = false
				}
			}
			if !okRT {
				continue
			}
			nm, ok, why := m.step(r)
			if !ok {
				lastWhy = fmt.Sprintf("%v: %s", r, why)
				continue
			}
			used[i] = true
			if rec(nm, n+1) {
				return true
			}
			used[i] = false
		}
		return false
	}
	if rec(init, 0) {
		return true, ""
	}
	return false, lastWhy
}

type c04Op struct{ op, pod, cid string }

func c04Ops(s ...string) []c04Op {
	var out []c04Op
	for _, x := range s {
		f := strings.Split(x, ":")
		out = append(out, c04Op{f[0], f[1], f[2]})
	}
	return out
}

func c04Scenario(name string, cfg dwCfg, setup []c04Op, threads [][]c04Op, after []c04Op, budget [4]int) dwScenario {
	body := func(x *vrt.Exec) {
		dwClock = 0
		k := &verifK8s{pods: map[string]*verifPod{"ns/p": {uid: "uid-p", present: true, local: true}, "ns/q": {uid: "uid-q", present: true, local: true}}}
		w := newDW(x, cfg, storage.NewMemoryStorage(), simcloud.NewNode(), k)
		if x.Failed() {
			return
		}
		var log []dwReply
		run := func(o c04Op, ctx context.Context) {
			var r dwReply
			switch o.op {
			case "add":
				c, cancel := vrt.CtxWithTimeout(ctx, 2*time.Minute)
				r = w.add(c, o.pod, o.cid)
				cancel()
			case "addc":
				cc, cancel := context.WithCancel(ctx)
				vrt.EnvEvent("cancel:"+o.pod, cancel)
				c, cancel2 := vrt.CtxWithTimeout(cc, 2*time.Minute)
				r = w.add(c, o.pod, o.cid)
				cancel2()
			case "del":
				r = w.del(ctx, o.pod, o.cid)
			case "get":
				r = w.get(ctx, o.pod, o.cid)
			}
			log = append(log, r)
		}
		vrt.Freeze(true)
		for _, o := range setup {
			run(o, w.ctx)
		}
		vrt.WaitQuiescent()
		vrt.Freeze(false)
		init := c04Model{}
		for p, v := range w.records() {
			cid, ips, _ := strings.Cut(v, "|")
			init[p] = c04Rec{cid, ips}
		}
		nSetup := len(log)
		var wg vrt.WaitGroup
		for _, th := range threads {
			th := th
			wg.Add(1)
			vrt.Go(func() {
				defer wg.Done()
				for _, o := range th {
					run(o, w.ctx)
				}
			})
		}
		wg.Wait()
		for _, o := range after {
			run(o, w.ctx)
		}
		vrt.WaitQuiescent()
		final := w.records()
		hist := fmt.Sprint(log[nSetup:])
		if ok, why := c04Linearize(init, log[nSetup:], final); !ok {
			x.Failf("C04/not-linearizable", "replies %s (after setup %v, records before %v) have no sequential explanation: %s", hist, log[:nSetup], init, why)
		}
		// (d) the pool owns for a pod exactly what its record says — a failed/rejected request leaves nothing behind
		owned := w.owned()
		for p, ips := range owned {
			_, rips, _ := strings.Cut(final[p], "|")
			if fmt.Sprint(ips) != fmt.Sprint(splitIPs(rips)) {
				x.Failf("C04/pool-ownership-without-record", "at quiescence the pool shows %v owned by %s, its stored record holds %q; replies %s", ips, p, rips, hist)
			}
		}
		for p, v := range final {
			_, rips, _ := strings.Cut(v, "|")
			if fmt.Sprint(owned[p]) != fmt.Sprint(splitIPs(rips)) {
				x.Failf("C04/record-without-pool-ownership", "record of %s holds %q but the pool shows it owning %v; replies %s", p, rips, owned[p], hist)
			}
		}
		var o []string
		for _, r := range log[nSetup:] {
			o = append(o, r.String())
		}
		sort.Strings(o)
		x.Outcome(strings.Join(o, " "))
	}
	var th []string
	for _, t := range threads {
		th = append(th, fmt.Sprint(t))
	}
	return dwScenario{Name: name, Budget: budget, Body: body, Info: map[string]any{"setup": fmt.Sprint(setup), "threads": th, "after": fmt.Sprint(after)}}
}

func TestVerifC04(t *testing.T) {
	r := ev.New("C04", "rpc-interleavings")
	defer r.Flush()
	r.Rule("real networkService.AllocIP/ReleaseIP/GetIPInfo (daemon, pkg/eni, pkg/storage instrumented) over the real pool and the simulated factory; 2-3 RPC threads on one pod with old/new sandbox ids and a second pod, request cancellation delivered by the explorer at any scheduling point; all interleavings within the deviation budgets; oracle: (a) brute-force linearizability of the replies against a sequential reference of the per-pod record, 'processing' replies must overlap another request for the pod and have no effect, (b,c) stale sandbox id / repeats as defined by the reference, (d) at quiescence pool ownership == stored records")
	d := 2
	stacks := [][2]bool{{true, false}}
	if ev.Thorough() {
		d = 3
		stacks = append(stacks, [2]bool{true, true})
	}
	var scs []dwScenario
	for _, st := range stacks {
		cfg := dwCfg{V4: st[0], V6: st[1], Cap: 3, Batch: 2, Slots: 2, Pre: [][2]int{{2, 2}}, MaxIdle: 5}
		if !st[1] {
			cfg.Pre = [][2]int{{2, 0}}
		}
		n := "v4"
		if st[1] {
			n = "dual"
		}
		scs = append(scs,
			c04Scenario("R1-add(new)||del(old)/"+n, cfg, c04Ops("add:p:old"), [][]c04Op{c04Ops("add:p:new"), c04Ops("del:p:old")}, c04Ops("get:p:new", "get:p:old"), [4]int{d, 0, 0, 0}),
			c04Scenario("R2-add||add/"+n, cfg, nil, [][]c04Op{c04Ops("add:p:c1"), c04Ops("add:p:c1")}, c04Ops("add:p:c1"), [4]int{d, 0, 0, 0}),
			c04Scenario("R3-del(new)||get(old)||get(new)/"+n, cfg, c04Ops("add:p:old", "add:p:new"), [][]c04Op{c04Ops("del:p:new"), c04Ops("get:p:old"), c04Ops("get:p:new")}, nil, [4]int{d, 0, 0, 0}),
			c04Scenario("R4-del||del/"+n, cfg, c04Ops("add:p:c1"), [][]c04Op{c04Ops("del:p:c1"), c04Ops("del:p:c1")}, c04Ops("del:p:c1", "add:q:c2"), [4]int{d, 0, 0, 0}),
			c04Scenario("R5-add-cancelled||add(q)/"+n, cfg, nil, [][]c04Op{c04Ops("addc:p:c1"), c04Ops("add:q:c2")}, c04Ops("add:q:c2"), [4]int{d - 1, 0, 0, 1}),
			c04Scenario("R6-add;add||get/"+n, cfg, nil, [][]c04Op{c04Ops("add:p:c1", "add:p:c1"), c04Ops("get:p:c1")}, nil, [4]int{d, 0, 0, 0}),
			c04Scenario("R7-del(old);get(new)||add(q)/"+n, cfg, c04Ops("add:p:old", "add:p:new"), [][]c04Op{c04Ops("del:p:old", "get:p:new"), c04Ops("add:q:c2")}, nil, [4]int{d, 0, 0, 0}),
			c04Scenario("R8-add||get||del/"+n, cfg, c04Ops("add:p:c1"), [][]c04Op{c04Ops("add:p:c1"), c04Ops("get:p:c1"), c04Ops("del:p:c1")}, nil, [4]int{d, 0, 0, 0}),
			c04Scenario("R9-add-cancelled(waiting for a new address)/"+n, dwCfg{V4: st[0], V6: st[1], Cap: 3, Batch: 2, Slots: 2, Pre: [][2]int{{1, 0}}, MaxIdle: 5}, c04Ops("add:q:c2"), [][]c04Op{c04Ops("addc:p:c1")}, c04Ops("add:p:c1"), [4]int{d - 1, 0, 0, 1}),
		)
	}
	// the other interface selection policy: a request for a pod that already has an address meets an empty slot that sorts first
	least := dwCfg{V4: true, Cap: 3, Batch: 2, Slots: 2, Pre: [][2]int{{2, 0}}, MaxIdle: 5, Least: true}
	scs = append(scs,
		c04Scenario("R1-add(new)||del(old)/v4/least_ips", least, c04Ops("add:p:old"), [][]c04Op{c04Ops("add:p:new"), c04Ops("del:p:old")}, c04Ops("get:p:new", "get:p:old"), [4]int{d - 1, 0, 0, 0}),
		c04Scenario("R6-add;add||get/v4/least_ips", least, nil, [][]c04Op{c04Ops("add:p:c1", "add:p:c1"), c04Ops("get:p:c1")}, nil, [4]int{d - 1, 0, 0, 0}),
	)
	dwRun(r, t, scs, 150*time.Second, 30*time.Minute)
}
