//go:build verif

package daemon

import (
	"context"
	"encoding/json"
	"fmt"
	"os"
	"sort"
	"strings"
	"testing"
	"time"

	corev1 "k8s.io/api/core/v1"
	metav1 "k8s.io/apimachinery/pkg/apis/meta/v1"
	k8stypes "k8s.io/apimachinery/pkg/types"
	"k8s.io/apimachinery/pkg/util/wait"
	"sigs.k8s.io/controller-runtime/pkg/client"
	"sigs.k8s.io/controller-runtime/pkg/client/fake"
	"sigs.k8s.io/controller-runtime/pkg/client/interceptor"
	"sigs.k8s.io/controller-runtime/pkg/reconcile"

	"github.com/AliyunContainerService/terway/internal/verif/bfs"
	"github.com/AliyunContainerService/terway/internal/verif/ev"
	vrt "github.com/AliyunContainerService/terway/internal/verif/rt"
	"github.com/AliyunContainerService/terway/internal/verif/simcloud"
	aliyunClient "github.com/AliyunContainerService/terway/pkg/aliyun/client"
	networkv1beta1 "github.com/AliyunContainerService/terway/pkg/apis/network.alibabacloud.com/v1beta1"
	"github.com/AliyunContainerService/terway/pkg/backoff"
	nodectl "github.com/AliyunContainerService/terway/pkg/controller/multi-ip/node"
	"github.com/AliyunContainerService/terway/pkg/eni"
	"github.com/AliyunContainerService/terway/pkg/storage"
	"github.com/AliyunContainerService/terway/pkg/utils"
	"github.com/AliyunContainerService/terway/types"
	"github.com/AliyunContainerService/terway/types/daemon"
)

const c03Node = "node-1"

// c03K8s is k8s.Kubernetes over the shared fake API server (pods are the API objects themselves).
type c03K8s struct {
	verifK8s
	c         client.Client
	failExist bool // the confirming pod lookups of the running GC pass fail
}

func (k *c03K8s) podObj(ns, name string) *corev1.Pod {
	p := &corev1.Pod{}
	if err := k.c.Get(context.Background(), client.ObjectKey{Namespace: ns, Name: name}, p); err != nil {
		return nil
	}
	return p
}
func (k *c03K8s) conv(p *corev1.Pod) *daemon.PodInfo {
	return &daemon.PodInfo{Name: p.Name, Namespace: p.Namespace, PodNetworkType: daemon.PodNetworkTypeENIMultiIP, PodUID: string(p.UID), SandboxExited: p.Status.Phase == corev1.PodSucceeded || p.Status.Phase == corev1.PodFailed}
}
func (k *c03K8s) GetPod(ctx context.Context, ns, name string, cache bool) (*daemon.PodInfo, error) {
	if p := k.podObj(ns, name); p != nil {
		return k.conv(p), nil
	}
	return nil, fmt.Errorf("pod %s/%s not found", ns, name)
}
func (k *c03K8s) PodExist(ns, name string) (bool, error) {
	if k.failExist {
		return false, fmt.Errorf("simulated API server failure reading pod %s/%s", ns, name)
	}
	return k.podObj(ns, name) != nil, nil
}
func (k *c03K8s) GetLocalPods() ([]*daemon.PodInfo, error) {
	l := &corev1.PodList{}
	if err := k.c.List(context.Background(), l); err != nil {
		return nil, err
	}
	var out []*daemon.PodInfo
	for i := range l.Items {
		out = append(out, k.conv(&l.Items[i]))
	}
	return out, nil
}
func (k *c03K8s) GetClient() client.Client { return k.c }
func (k *c03K8s) NodeName() string         { return c03Node }

// c03W: the real node IPAM controller and the real node agent (networkService in CRD mode + CRDV2) on one fake API server.
type c03W struct {
	c          client.Client
	cloud      *simcloud.Cluster
	ctl        *nodectl.ReconcileNode
	db         storage.Storage
	crd        *eni.CRDV2
	svc        *networkService
	k          *c03K8s
	gen        map[int]int
	events     []string
	failNode   bool // next Node status update fails
	failRT     bool // next NodeRuntime write fails
	delSeen    map[string]bool // uids whose DEL this daemon instance processed (uid recorded at ADD time)
	goneSeen   map[string]bool // uids this instance queued for reporting while it had verified the pod absent
	delEver    map[string]bool
	npods      int
}

func newC03W(npods int) *c03W {
	backoff.OverrideBackoff(map[string]wait.Backoff{backoff.WaitPodENIStatus: {Duration: time.Second, Steps: 1}})
	w := &c03W{cloud: simcloud.NewCluster(), gen: map[int]int{}, delSeen: map[string]bool{}, goneSeen: map[string]bool{}, delEver: map[string]bool{}, npods: npods}
	node := &networkv1beta1.Node{ObjectMeta: metav1.ObjectMeta{Name: c03Node}, Spec: networkv1beta1.NodeSpec{
		NodeMetadata: networkv1beta1.NodeMetadata{RegionID: "r1", InstanceType: "ecs.x", InstanceID: "i-1", ZoneID: "z1"},
		NodeCap:      networkv1beta1.NodeCap{Adapters: 3, TotalAdapters: 3, IPv4PerAdapter: 3, IPv6PerAdapter: 3},
		ENISpec:      &networkv1beta1.ENISpec{VSwitchOptions: []string{"vsw-1"}, SecurityGroupIDs: []string{"sg-1"}, EnableIPv4: true, VSwitchSelectPolicy: networkv1beta1.VSwitchSelectionPolicyOrdered},
		Pool:         &networkv1beta1.PoolSpec{MinPoolSize: 0, MaxPoolSize: 0},
		Flavor:       []networkv1beta1.Flavor{{NetworkInterfaceType: networkv1beta1.ENITypeSecondary, NetworkInterfaceTrafficMode: networkv1beta1.NetworkInterfaceTrafficModeStandard, Count: 2}},
	}}
	w.c = fake.NewClientBuilder().WithScheme(types.Scheme).
		WithStatusSubresource(&networkv1beta1.Node{}, &networkv1beta1.NodeRuntime{}, &corev1.Node{}).
		WithIndex(&corev1.Pod{}, "spec.nodeName", func(o client.Object) []string { return []string{o.(*corev1.Pod).Spec.NodeName} }).
		WithObjects(node, &corev1.Node{ObjectMeta: metav1.ObjectMeta{Name: c03Node, UID: "node-uid"}}, &networkv1beta1.NodeRuntime{ObjectMeta: metav1.ObjectMeta{Name: c03Node}}).
		WithInterceptorFuncs(interceptor.Funcs{
			SubResourceUpdate: func(ctx context.Context, c client.Client, sub string, obj client.Object, opts ...client.SubResourceUpdateOption) error {
				if _, ok := obj.(*networkv1beta1.Node); ok && w.failNode {
					w.failNode = false
					return fmt.Errorf("simulated API server write failure")
				}
				return c.SubResource(sub).Update(ctx, obj, opts...)
			},
			SubResourcePatch: func(ctx context.Context, c client.Client, sub string, obj client.Object, patch client.Patch, opts ...client.SubResourcePatchOption) error {
				if _, ok := obj.(*networkv1beta1.NodeRuntime); ok && w.failRT {
					w.failRT = false
					return fmt.Errorf("simulated API server write failure")
				}
				return c.SubResource(sub).Patch(ctx, obj, patch, opts...)
			},
		}).Build()
	w.cloud.AddENI(&simcloud.CENI{Type: aliyunClient.ENITypePrimary, Status: aliyunClient.ENIStatusInUse, InstanceID: "i-1", Foreign: true})
	w.ctl = nodectl.VerifNewReconcileNode(w.c, w.cloud)
	w.db = storage.NewMemoryStorage()
	w.k = &c03K8s{c: w.c}
	w.startDaemon()
	return w
}

func (w *c03W) startDaemon() {
	w.crd = eni.VerifNewCRDV2(w.c, c03Node)
	mgr := eni.NewManager(0, 0, 0, 0, []eni.NetworkInterface{w.crd}, daemon.EniSelectionPolicyMostIPs, nil)
	w.svc = &networkService{daemonMode: daemon.ModeENIMultiIP, k8s: w.k, resourceDB: w.db, eniMgr: mgr, enableIPv4: true, ipamType: types.IPAMTypeCRD}
	w.delSeen = map[string]bool{}
	w.goneSeen = map[string]bool{}
}

func (w *c03W) node() *networkv1beta1.Node {
	n := &networkv1beta1.Node{}
	_ = w.c.Get(context.Background(), client.ObjectKey{Name: c03Node}, n)
	return n
}
func (w *c03W) rt() *networkv1beta1.NodeRuntime {
	n := &networkv1beta1.NodeRuntime{}
	_ = w.c.Get(context.Background(), client.ObjectKey{Name: c03Node}, n)
	return n
}
func (w *c03W) podName(i int) string { return fmt.Sprintf("p%d", i) }
func (w *c03W) pod(i int) *corev1.Pod { return w.k.podObj("ns", w.podName(i)) }

func (w *c03W) record(i int) (daemon.PodResources, bool) {
	o, err := w.db.Get(utils.PodInfoKey("ns", w.podName(i)))
	if err != nil {
		return daemon.PodResources{}, false
	}
	return o.(daemon.PodResources), true
}

func (w *c03W) Enabled() []string {
	var evs []string
	for i := 0; i < w.npods; i++ {
		if w.pod(i) == nil {
			evs = append(evs, fmt.Sprintf("podCreate:%d", i))
		} else {
			evs = append(evs, fmt.Sprintf("podRemove:%d", i), fmt.Sprintf("ADD:%d", i))
		}
		if _, ok := w.record(i); ok {
			evs = append(evs, fmt.Sprintf("DEL:%d", i))
		}
	}
	evs = append(evs, "reconcile", "reconcile/updateFails", "ctlRestart", "flush", "flush/fails", "syncDeleted", "daemonGC", "daemonGC/lookupFails", "daemonRestart", "clock+gc")
	return evs
}

type c03Bind struct{ eni, ip, pod, uid, status string }

func c03Bindings(n *networkv1beta1.Node) map[string]c03Bind {
	out := map[string]c03Bind{}
	for id, e := range n.Status.NetworkInterfaces {
		for ip, v := range e.IPv4 {
			out[ip] = c03Bind{id, ip, v.PodID, v.PodUID, string(v.Status)}
		}
	}
	return out
}

func c03Final(rtm *networkv1beta1.NodeRuntime, uid string) string {
	s, ok := rtm.Status.Pods[uid]
	if !ok {
		return ""
	}
	st, _, ok := utils.RuntimeFinalStatus(s.Status)
	if !ok {
		return ""
	}
	return string(st)
}

func (w *c03W) Apply(x *vrt.Exec, evn string) {
	w.events = append(w.events, evn)
	hist := strings.Join(w.events, " ; ")
	ctx := context.Background()
	beforeN, beforeRT := w.node(), w.rt()
	beforeBind := c03Bindings(beforeN)
	livePods := map[string]string{} // name -> uid, at the start of the transition
	for i := 0; i < w.npods; i++ {
		if p := w.pod(i); p != nil {
			livePods["ns/"+p.Name] = string(p.UID)
		}
	}
	logMark := len(w.cloud.Log)
	pendBefore := map[string]bool{}
	for _, u := range w.crd.VerifPending() {
		pendBefore[u] = true
	}
	f := strings.Split(evn, ":")
	var i int
	if len(f) > 1 {
		fmt.Sscan(f[1], &i)
	}
	switch f[0] {
	case "podCreate":
		w.gen[i]++
		_ = w.c.Create(ctx, &corev1.Pod{ObjectMeta: metav1.ObjectMeta{Namespace: "ns", Name: w.podName(i), UID: k8stypes.UID(fmt.Sprintf("uid-%d-%d", i, w.gen[i]))},
			Spec: corev1.PodSpec{NodeName: c03Node, Containers: []corev1.Container{{Name: "c"}}}})
	case "podRemove":
		if p := w.pod(i); p != nil {
			_ = w.c.Delete(ctx, p)
		}
	case "ADD":
		c, cancel := vrt.CtxWithTimeout(ctx, 2*time.Minute)
		w.add(c, i)
		cancel()
	case "DEL":
		if rec, ok := w.record(i); ok {
			uid := ""
			if rec.PodInfo != nil {
				uid = rec.PodInfo.PodUID
			}
			cid := ""
			if rec.ContainerID != nil {
				cid = *rec.ContainerID
			}
			r := (&dw{svc: w.svc}).del(ctx, w.podName(i), cid)
			if r.Err == "" {
				w.delSeen[uid], w.delEver[uid] = true, true
			}
		}
	case "reconcile":
		_, _ = w.ctl.Reconcile(ctx, reconcile.Request{NamespacedName: k8stypes.NamespacedName{Name: c03Node}})
		vrt.Advance(2 * time.Second)
	case "reconcile/updateFails":
		w.failNode = true
		_, _ = w.ctl.Reconcile(ctx, reconcile.Request{NamespacedName: k8stypes.NamespacedName{Name: c03Node}})
		w.failNode = false
		vrt.Advance(2 * time.Second)
	case "ctlRestart":
		w.ctl = nodectl.VerifNewReconcileNode(w.c, w.cloud)
	case "flush":
		_ = w.crd.VerifFlush(ctx)
	case "flush/fails":
		w.failRT = true
		_ = w.crd.VerifFlush(ctx)
		w.failRT = false
	case "syncDeleted":
		_ = w.crd.VerifSyncDeletedPods(ctx)
	case "daemonGC":
		_ = w.svc.gcPods(ctx)
	case "daemonGC/lookupFails":
		w.k.failExist = true
		_ = w.svc.gcPods(ctx)
		w.k.failExist = false
	case "daemonRestart":
		w.startDaemon()
	case "clock+gc":
		vrt.Advance(61 * time.Second)
	}
	// events are sequential: everything an event spawned runs to completion before the next one
	// (and a second passes: teardown/initial timestamps have one-second granularity)
	vrt.WaitQuiescent()
	vrt.Advance(time.Second)
	afterN, afterRT := w.node(), w.rt()
	if evn == "daemonGC" || evn == "daemonGC/lookupFails" {
		// what the GC pass queued (or wrote) for pods the API reported absent when it ran
		for _, uid := range w.crd.VerifPending() {
			if pendBefore[uid] || w.delSeen[uid] {
				continue
			}
			// queued by this GC pass: only legitimate for a pod the API reported absent when the pass ran
			if evn == "daemonGC/lookupFails" {
				x.Failf("C03/teardown-queued-without-verified-absence", "agent GC queued a teardown report for uid %s although every pod lookup of that pass failed (nothing was confirmed absent); %s", uid, hist)
				continue
			}
			stillLive := false
			for name, u := range livePods {
				if u == uid {
					stillLive = true
					x.Failf("C03/teardown-queued-for-existing-pod", "agent GC queued a teardown report for uid %s although pod %s with that uid exists; %s", uid, name, hist)
				}
			}
			if !stillLive {
				w.goneSeen[uid] = true
			}
		}
	}
	// ---- controller half: nothing bound is taken away before the pod is gone AND its teardown is reported
	if strings.HasPrefix(evn, "reconcile") {
		afterBind := c03Bindings(afterN)
		touched := map[string]string{}
		for _, c := range w.cloud.Log[logMark:] {
			switch c.Op {
			case "UnAssign4", "UnAssign6":
				for _, ip := range c.IPs {
					touched[ip] = c.String()
				}
			case "Detach", "Delete":
				if ce := w.cloud.ENIs[c.ENI]; ce != nil {
					for _, ip := range ce.V4 {
						touched[ip] = c.String()
					}
				}
				for ip, b := range beforeBind {
					if b.eni == c.ENI {
						touched[ip] = c.String()
					}
				}
			}
		}
		for ip, b := range beforeBind {
			if b.pod == "" {
				continue
			}
			a, still := afterBind[ip]
			what := ""
			switch {
			case !still:
				what = "removed from the record"
			case a.pod != b.pod:
				what = fmt.Sprintf("unbound (now owned by %q)", a.pod)
			case a.status == string(networkv1beta1.IPStatusDeleting) && b.status != a.status:
				what = "marked Deleting"
			}
			if call, ok := touched[ip]; ok {
				what = strings.TrimSpace(what + " cloud call " + call)
			}
			if what == "" {
				continue
			}
			_, podLives := livePods[b.pod]
			reported := b.uid != "" && c03Final(beforeRT, b.uid) == string(networkv1beta1.CNIStatusDeleted)
			switch {
			case podLives:
				x.Failf("C03/reclaimed-while-pod-exists", "address %s bound to %s (uid %s) was %s while the pod still exists; %s", ip, b.pod, b.uid, what, hist)
			case !reported:
				cls := "uid-recorded"
				if b.uid == "" {
					cls = "no-uid-in-record"
				}
				x.Failf("C03/reclaimed-before-teardown-reported/"+cls, "address %s bound to %s (uid %q) was %s although the node agent had not reported its teardown (runtime status %q); %s", ip, b.pod, b.uid, what, c03Final(beforeRT, b.uid), hist)
			}
		}
	}
	// ---- agent half: teardown is reported only for pods whose DEL this instance processed or that are verifiably gone
	for uid := range afterRT.Status.Pods {
		if c03Final(afterRT, uid) != string(networkv1beta1.CNIStatusDeleted) || c03Final(beforeRT, uid) == string(networkv1beta1.CNIStatusDeleted) {
			continue
		}
		podID := afterRT.Status.Pods[uid].PodID
		liveUID, lives := livePods[podID]
		switch {
		case w.delSeen[uid]:
		case w.goneSeen[uid]:
		case !lives:
		default:
			x.Failf("C03/teardown-reported-without-del", "event %s reported teardown for uid %s (%s) although this agent instance processed no DEL for it and pod %s exists (uid %s); %s", evn, uid, podID, podID, liveUID, hist)
		}
	}
}

func (w *c03W) add(ctx context.Context, i int) {
	cid := fmt.Sprintf("c-%d-%d", i, w.gen[i])
	(&dw{svc: w.svc}).add(ctx, w.podName(i), cid)
}

func (w *c03W) Canon() string {
	n, rtm := w.node(), w.rt()
	var parts []string
	b := c03Bindings(n)
	var ips []string
	for ip := range b {
		ips = append(ips, ip)
	}
	sort.Strings(ips)
	for _, ip := range ips {
		v := b[ip]
		parts = append(parts, fmt.Sprintf("%s@%s:%s:%s:%s", ip, v.eni, v.status, v.pod, v.uid))
	}
	var es []string
	for id, e := range n.Status.NetworkInterfaces {
		es = append(es, id+"="+e.Status)
	}
	sort.Strings(es)
	var pods, recs, rts []string
	for i := 0; i < w.npods; i++ {
		if p := w.pod(i); p != nil {
			pods = append(pods, p.Name+"="+string(p.UID))
		}
		if r, ok := w.record(i); ok {
			u := ""
			if r.PodInfo != nil {
				u = r.PodInfo.PodUID
			}
			recs = append(recs, w.podName(i)+"="+u)
		}
	}
	for uid, st := range rtm.Status.Pods {
		e := uid + "=" + c03Final(rtm, uid)
		// the agent's GC treats an 'initial' entry differently once it is 30 s old: the age class is part of the state
		// (without it a clock step looks like a self-loop and what only happens afterwards is never explored)
		if fs, last, ok := utils.RuntimeFinalStatus(st.Status); ok && fs == networkv1beta1.CNIStatusInitial && last != nil && !vrt.TimeNow().Before(last.LastUpdateTime.Add(30*time.Second)) {
			e += "(>=30s)"
		}
		rts = append(rts, e)
	}
	sort.Strings(rts)
	pend := w.crd.VerifPending()
	sort.Strings(pend)
	var ds []string
	for u := range w.delSeen {
		ds = append(ds, u)
	}
	sort.Strings(ds)
	return fmt.Sprintf("CR:%v ENI:%v PODS:%v REC:%v RT:%v PEND:%v DELSEEN:%v CLOUD:%s", parts, es, pods, recs, rts, pend, ds, w.cloud.Canon())
}

// closure (liveness): a pod that is gone and whose DEL was processed gets its address freed by the healthy loop.
func (w *c03W) closure(x *vrt.Exec, hist []string) {
	n := w.node()
	var waiting []c03Bind
	for _, b := range c03Bindings(n) {
		if b.pod == "" {
			continue
		}
		lives := false
		for i := 0; i < w.npods; i++ {
			if p := w.pod(i); p != nil && "ns/"+p.Name == b.pod {
				lives = true
			}
		}
		if !lives && b.uid != "" && w.delEver[b.uid] {
			waiting = append(waiting, b)
		}
	}
	if len(waiting) == 0 {
		return
	}
	ctx := context.Background()
	for round := 0; round < 6; round++ {
		_ = w.crd.VerifFlush(ctx)
		_ = w.crd.VerifSyncDeletedPods(ctx) // the agent's 5-minute loop: re-creates 'initial' entries from the IPAM record
		vrt.Advance(61 * time.Second)
		_ = w.svc.gcPods(ctx)
		_, _ = w.ctl.Reconcile(ctx, reconcile.Request{NamespacedName: k8stypes.NamespacedName{Name: c03Node}})
		vrt.Advance(61 * time.Second)
	}
	after := c03Bindings(w.node())
	for _, b := range waiting {
		if a, ok := after[b.ip]; ok && a.pod == b.pod && a.uid == b.uid {
			x.Failf("C03/address-never-freed", "pod %s (uid %s) is gone and its DEL was processed, yet %s is still bound to it after 6 healthy rounds (flush; syncDeletedPods; agent GC; reconcile); history %s", b.pod, b.uid, b.ip, strings.Join(hist, " ; "))
		}
	}
}

func TestVerifC03(t *testing.T) {
	r := ev.New("C03", "reclaim-after-teardown")
	defer r.Flush()
	depth := 5
	if ev.Thorough() {
		depth = 9
	}
	r.Rule(fmt.Sprintf("breadth-first search to depth %d (from the empty cluster and from roots with a bound pod, set up or not yet set up on the node, a recreated pod, two pods) over events of BOTH processes on one fake API server: kubelet {podCreate, podRemove (also before DEL = force delete; create after remove = same name, new UID)}, node agent = real networkService in CRD mode + real CRDV2 {ADD, DEL, flush of the teardown report (optionally with the API write failing), syncDeletedPods, agent GC (cleanRuntimeNode; also with its confirming pod lookups failing), agent restart}, control plane = real ReconcileNode {reconcile, reconcile with failing status update, restart, clock}; transition invariants: an address bound to (pod, uid) is unbound / marked Deleting / unassigned only if no pod of that name exists AND NodeRuntime reports uid as deleted; a teardown report appears only for a uid whose DEL this agent instance processed or whose pod is absent; closure from every state: pod gone + DEL processed => address freed within 6 healthy rounds", depth))
	if rp := os.Getenv("VERIF_REPLAY"); rp != "" {
		b, _ := os.ReadFile(rp)
		var doc struct {
			Replay struct {
				History []string `json:"history"`
			} `json:"replay"`
		}
		_ = json.Unmarshal(b, &doc)
		if si, _ := ev.Shard(); si == 0 {
			res := vrt.RunOnce("replay", 400000, func(x *vrt.Exec) {
				w := newC03W(2)
				vrt.Freeze(true)
				for _, e := range doc.Replay.History {
					w.Apply(x, e)
					fmt.Printf("--- after %s\n%s\n", e, w.Canon())
				}
			})
			for _, v := range res.Violations {
				fmt.Printf("VIOLATION-IN-REPLAY %s\n%s\n", v.Sig, v.Detail)
				r.Violate(strings.SplitN(v.Sig, "::", 2)[1], v.Detail, doc.Replay)
			}
			r.Case("replay", doc.Replay)
			r.Distinct("replay2")
		}
		return
	}
	si, sn := ev.Shard()
	dl := ev.Deadline(150*time.Second, 40*time.Minute)
	// the search is split over the shards by root: each root's first-level successors go to different workers
	roots := [][]string{
		{},
		{"podCreate:0", "reconcile", "reconcile", "ADD:0"},
		// bound by the controller, not yet set up on the node (no local record)
		{"podCreate:0", "reconcile", "reconcile"},
		{"podCreate:0", "reconcile", "reconcile", "ADD:0", "podRemove:0", "podCreate:0"},
		{"podCreate:0", "podCreate:1", "reconcile", "reconcile", "ADD:0", "ADD:1", "DEL:0"},
	}
	first := (&c03W{npods: 2}).alphabet()
	var myRoots [][]string
	k := 0
	for _, rt := range roots {
		for _, e := range first {
			if k%sn == si {
				myRoots = append(myRoots, append(append([]string{}, rt...), e))
			}
			k++
		}
	}
	res := bfs.Run(bfs.Config{Name: "c03", MaxDepth: depth - 1, Deadline: dl, Roots: myRoots,
		Build:   func(x *vrt.Exec) bfs.World { return newC03W(2) },
		OnState: func(x *vrt.Exec, w bfs.World, hist []string) { w.(*c03W).closure(x, hist) }})
	if res.HarnessErr != "" {
		t.Fatalf("harness error: %s", res.HarnessErr)
	}
	for _, v := range res.Violations {
		r.Violate(v.Sig, v.Detail, map[string]any{"history": v.History})
	}
	r.States(res.States)
	r.Transitions(res.Transitions)
	r.Traces(res.Replays)
	r.Add("closure_runs", res.Closures)
	if !res.FrontierEmptied {
		r.Add("depth_bounded", 1)
	}
	if time.Now().After(dl) {
		r.NotExhaustive()
	}
	r.Case(fmt.Sprintf("shard%d/%d", si, res.States), map[string]any{"roots": len(myRoots), "states": res.States, "transitions": res.Transitions, "depth": res.Depth + 1, "frontier_emptied": res.FrontierEmptied, "closures": res.Closures, "sample_histories": res.SampleHist})
	r.Distinct(fmt.Sprintf("s%d", si))
	r.Distinct("all")
}

// alphabet: every event name (enabledness is checked again when applied: a disabled event is a no-op and is pruned as a duplicate state)
func (w *c03W) alphabet() []string {
	var evs []string
	for i := 0; i < w.npods; i++ {
		evs = append(evs, fmt.Sprintf("podCreate:%d", i), fmt.Sprintf("podRemove:%d", i), fmt.Sprintf("ADD:%d", i), fmt.Sprintf("DEL:%d", i))
	}
	return append(evs, "reconcile", "reconcile/updateFails", "ctlRestart", "flush", "flush/fails", "syncDeleted", "daemonGC", "daemonGC/lookupFails", "daemonRestart", "clock+gc")
}


