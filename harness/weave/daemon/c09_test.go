//go:build verif

package daemon

import (
	"encoding/json"
	"net"
	"fmt"
	"sort"
	"strings"
	"testing"
	"time"

	"github.com/vishvananda/netlink"

	"github.com/AliyunContainerService/terway/internal/verif/ev"
	vrt "github.com/AliyunContainerService/terway/internal/verif/rt"
	"github.com/AliyunContainerService/terway/internal/verif/simcloud"
	"github.com/AliyunContainerService/terway/pkg/storage"
	"github.com/AliyunContainerService/terway/rpc"
	"github.com/AliyunContainerService/terway/types/daemon"
)

// record archetypes
type c09Arch struct {
	name     string
	eni      int  // 0: interface whose MAC exists as a kernel device (lo), 1: interface without kernel device (detached)
	present  bool // API server has the pod
	local    bool // in the node-local pod list
	exited   bool
	sticky   bool
	lookErr  bool
	recUID   string // non-empty: the UID stored with the record ("-" = none, a record written before UIDs were stored)
	wantGone bool   // after two passes
}

var c09Archs = []c09Arch{
	{name: "live", eni: 0, present: true, local: true},
	{name: "vanished", eni: 0, wantGone: true},
	{name: "exited", eni: 0, present: true, local: true, exited: true},
	{name: "sticky", eni: 0, sticky: true, wantGone: true},
	{name: "detached", eni: 1, wantGone: true},
	{name: "lookuperr", eni: 0, lookErr: true},
	{name: "zlate", eni: 0, wantGone: true}, // a second vanished pod that sorts after every other record
	// a running pod whose stored record carries no UID (written by an older agent) / the UID of an earlier incarnation
	// (re-created under the same name, its own ADD not processed yet): the pod exists, the record stays
	{name: "legacy", eni: 0, present: true, local: true, recUID: "-"},
	{name: "reborn", eni: 0, present: true, local: true, recUID: "uid-reborn-previous"},
}

func c09World(x *vrt.Exec, subset []c09Arch) (*dw, map[string]string) {
	cloud := simcloud.NewNode()
	e0 := cloud.AddENI(8, 0, false, false)
	c09SetLoMAC(x, e0.MAC) // lo (the only netlink.Device of the private netns) stands for the attached interface
	e1 := cloud.AddENI(3, 0, false, false)
	enis := []*simcloud.NodeENI{e0, e1}
	db := storage.NewMemoryStorage()
	k := &verifK8s{pods: map[string]*verifPod{}, existErr: map[string]bool{}}
	next := []int{1, 1}
	addr := map[string]string{}
	for _, a := range subset {
		e := enis[a.eni]
		ip := e.V4[next[a.eni]]
		next[a.eni]++
		addr[a.name] = ip.String()
		pi := &daemon.PodInfo{Name: a.name, Namespace: "ns", PodNetworkType: daemon.PodNetworkTypeENIMultiIP, PodUID: "uid-" + a.name, SandboxExited: a.exited}
		if a.sticky {
			pi.IPStickTime = 5 * time.Minute
		}
		if a.recUID == "-" {
			pi.PodUID = ""
		} else if a.recUID != "" {
			pi.PodUID = a.recUID
		}
		cid := "c-" + a.name
		nc := []*rpc.NetConf{{BasicInfo: &rpc.BasicInfo{PodIP: &rpc.IPSet{IPv4: ip.String()}, GatewayIP: &rpc.IPSet{IPv4: "10.0.255.253"}}, ENIInfo: &rpc.ENIInfo{MAC: e.MAC}, DefaultRoute: true, IfName: "eth0"}}
		ncb, _ := json.Marshal(nc)
		_ = db.Put("ns/"+a.name, daemon.PodResources{PodInfo: pi, ContainerID: &cid, NetConf: string(ncb),
			Resources: []daemon.ResourceItem{{Type: daemon.ResourceTypeENIIP, ID: e.MAC + "." + ip.String(), ENIID: e.ID, ENIMAC: e.MAC, IPv4: ip.String()}}})
		k.pods["ns/"+a.name] = &verifPod{uid: "uid-" + a.name, exited: a.exited, sticky: a.sticky, present: a.present, local: a.local}
		if a.lookErr {
			k.existErr["ns/"+a.name] = true
		}
	}
	w := newDW(x, dwCfg{V4: true, Cap: 10, Batch: 2, Slots: 2, MaxIdle: 20}, db, cloud, k)
	return w, addr
}

func c09SetLoMAC(x *vrt.Exec, mac string) {
	lo, err := netlink.LinkByName("lo")
	if err != nil {
		x.Failf("harness/netns", "no lo: %v", err)
		return
	}
	hw, _ := net.ParseMAC(mac)
	if lo.Attrs().HardwareAddr.String() != mac {
		if err := netlink.LinkSetHardwareAddr(lo, hw); err != nil {
			x.Failf("harness/netns", "cannot set lo address (not in a private netns?): %v", err)
		}
	}
	_ = netlink.LinkSetUp(lo)
}

func c09Snapshot(w *dw) string {
	rec := w.records()
	own := w.owned()
	var out []string
	for p, v := range rec {
		out = append(out, "rec:"+p+"="+v)
	}
	for p, v := range own {
		out = append(out, "own:"+p+"="+strings.Join(v, ","))
	}
	sort.Strings(out)
	return strings.Join(out, " ")
}

func TestVerifC09(t *testing.T) {
	r := ev.New("C09", "gc-store-vs-pods")
	defer r.Flush()
	ob := 1
	if ev.Thorough() {
		ob = 3
	}
	r.Rule(fmt.Sprintf("every subset of 9 record archetypes (live, vanished, exited sandbox, vanished sticky-IP, vanished on an interface with no kernel device, API lookup error, a second vanished pod that sorts last, running pod whose record has no UID, running pod whose record has an earlier incarnation's UID) as (store, pool, pod list) triple; the real gcPods is run three times inside a private network namespace (gcPolicyRoutes/ruleSync talk to the real kernel; lo is the only netlink.Device and stands for the attached interface); store iteration order is an explorer choice (<=%d non-default orders); oracle: after two passes exactly the records and pool ownership of the pods the API confirms absent are gone, everything else is untouched, a third pass changes nothing; plus interleavings gcPods || AllocIP(new pod) || ReleaseIP(vanishing pod)", ob))
	var scs []dwScenario
	n := len(c09Archs)
	for mask := 1; mask < 1<<n; mask++ {
		var subset []c09Arch
		var names []string
		for i, a := range c09Archs {
			if mask>>i&1 == 1 {
				subset = append(subset, a)
				names = append(names, a.name)
			}
		}
		if !ev.Thorough() && len(subset) > 4 {
			continue // quick: all subsets of size <= 4
		}
		sub := subset
		name := "gc/" + strings.Join(names, "+")
		body := func(x *vrt.Exec) {
			w, addr := c09World(x, sub)
			if x.Failed() {
				return
			}
			before := c09Snapshot(w)
			var errs []string
			pass := func() {
				if err := w.svc.gcPods(w.ctx); err != nil {
					errs = append(errs, err.Error())
				} else {
					errs = append(errs, "ok")
				}
				vrt.WaitQuiescent()
			}
			pass()
			pass()
			after2 := c09Snapshot(w)
			rec, own := w.records(), w.owned()
			for _, a := range sub {
				_, hasRec := rec[a.name]
				_, hasOwn := own[a.name]
				switch {
				case a.wantGone && (hasRec || hasOwn):
					why := "vanished"
					if a.eni == 1 {
						why = "vanished-on-detached-interface"
					} else if a.sticky {
						why = "vanished-sticky"
					}
					blocker := ""
					for _, b := range sub {
						if b.eni == 1 && b.name != a.name {
							blocker = "/behind-detached-record"
						}
					}
					x.Failf("C09/not-collected/"+why+blocker, "pod %s (absent from the API) still has record=%v ownership=%v after two GC passes (pass results %v); records before: %s", a.name, hasRec, hasOwn, errs, before)
				case !a.wantGone && (!hasRec || fmt.Sprint(own[a.name]) != fmt.Sprint([]string{addr[a.name]})):
					x.Failf("C09/collected-existing-pod/"+a.name, "pod %s (present=%v exited=%v lookupError=%v) lost record=%v / ownership=%v; before: %s after: %s", a.name, a.present, a.exited, a.lookErr, !hasRec, own[a.name], before, after2)
				}
			}
			pass()
			if after3 := c09Snapshot(w); after3 != after2 {
				x.Failf("C09/third-pass-not-idempotent", "third pass changed state: %s -> %s", after2, after3)
			}
			x.Outcome(strings.Join(errs, ",") + "|" + after2)
		}
		scs = append(scs, dwScenario{Name: name, Budget: [4]int{0, ob, 0, 0}, Body: body, Info: map[string]any{"records": names}})
	}
	// interleavings with requests
	for _, withDetached := range []bool{false} {
		_ = withDetached
		body := func(x *vrt.Exec) {
			dwClock = 0
			sub := []c09Arch{c09Archs[0], c09Archs[1]}
			w, addr := c09World(x, sub)
			if x.Failed() {
				return
			}
			// a brand-new pod the node-local list does not show yet, and a vanishing pod whose DEL is replayed
			w.k8s.pods["ns/fresh"] = &verifPod{uid: "uid-fresh", present: true, local: false}
			var wg vrt.WaitGroup
			var addRep dwReply
			wg.Add(3)
			vrt.Go(func() { defer wg.Done(); _ = w.svc.gcPods(w.ctx) })
			vrt.Go(func() { defer wg.Done(); addRep = w.add(w.ctx, "fresh", "c-fresh") })
			vrt.Go(func() { defer wg.Done(); w.del(w.ctx, "vanished", "c-vanished") })
			wg.Wait()
			_ = w.svc.gcPods(w.ctx)
			vrt.WaitQuiescent()
			rec, own := w.records(), w.owned()
			if addRep.Err == "" {
				if _, ok := rec["fresh"]; !ok || fmt.Sprint(own["fresh"]) != fmt.Sprint(splitIPs(addRep.IPs)) {
					x.Failf("C09/collected-pod-with-request-in-flight", "ADD(fresh)=%s completed during GC but afterwards record=%v ownership=%v", addRep.IPs, ok, own["fresh"])
				}
			}
			if _, ok := rec["live"]; !ok || fmt.Sprint(own["live"]) != fmt.Sprint([]string{addr["live"]}) {
				x.Failf("C09/collected-existing-pod/live", "live pod lost its record/ownership: %v %v", rec, own)
			}
			if _, ok := rec["vanished"]; ok || len(own["vanished"]) > 0 {
				x.Failf("C09/not-collected/vanished", "vanished pod still has record=%v ownership=%v", ok, own["vanished"])
			}
			x.Outcome(addRep.String() + "|" + c09Snapshot(w))
		}
		d := 2
		if ev.Thorough() {
			d = 4
		}
		scs = append(scs, dwScenario{Name: "gc||add(fresh)||del(vanished)", Budget: [4]int{d, 1, 0, 0}, Body: body})
	}
	dwRun(r, t, scs, 150*time.Second, 30*time.Minute)
}
