//go:build verif

package daemon

import (
	"context"
	"fmt"
	"os"
	"sort"
	"strings"
	"testing"
	"time"

	"github.com/go-logr/logr"
	corev1 "k8s.io/api/core/v1"
	"sigs.k8s.io/controller-runtime/pkg/client"
	logf "sigs.k8s.io/controller-runtime/pkg/log"

	"github.com/AliyunContainerService/terway/internal/verif/ev"
	vrt "github.com/AliyunContainerService/terway/internal/verif/rt"
	"github.com/AliyunContainerService/terway/internal/verif/simcloud"
	"github.com/AliyunContainerService/terway/pkg/eni"
	"github.com/AliyunContainerService/terway/pkg/storage"
	"github.com/AliyunContainerService/terway/rpc"
	"github.com/AliyunContainerService/terway/types"
	"github.com/AliyunContainerService/terway/types/daemon"
)

func init() { logf.SetLogger(logr.Discard()) }

// ---------------------------------------------------------------- fake k8s.Kubernetes

type verifPod struct {
	uid     string
	exited  bool
	sticky  bool
	present bool // in the API server
	local   bool // in the kubelet's / informer's local pod list
}

type verifK8s struct {
	mu        vrt.Mutex
	pods      map[string]*verifPod // "ns/name"
	existErr  map[string]bool      // PodExist answers an error for these
	existCall int
}

func (k *verifK8s) info(ns, name string, p *verifPod) *daemon.PodInfo {
	pi := &daemon.PodInfo{Name: name, Namespace: ns, PodNetworkType: daemon.PodNetworkTypeENIMultiIP, PodUID: p.uid, SandboxExited: p.exited}
	if p.sticky {
		pi.IPStickTime = 5 * time.Minute
	}
	return pi
}

func (k *verifK8s) GetLocalPods() ([]*daemon.PodInfo, error) {
	vrt.Yield()
	k.mu.Lock()
	defer k.mu.Unlock()
	var out []*daemon.PodInfo
	var ids []string
	for id := range k.pods {
		ids = append(ids, id)
	}
	sort.Strings(ids)
	for _, id := range ids {
		p := k.pods[id]
		if p.local {
			ns, name, _ := strings.Cut(id, "/")
			out = append(out, k.info(ns, name, p))
		}
	}
	return out, nil
}

type verifNotFound struct{ error }

func (k *verifK8s) GetPod(ctx context.Context, namespace, name string, cache bool) (*daemon.PodInfo, error) {
	vrt.Yield()
	k.mu.Lock()
	defer k.mu.Unlock()
	p := k.pods[namespace+"/"+name]
	if p == nil || (!p.present && !p.local) {
		return nil, fmt.Errorf("pod %s/%s not found", namespace, name)
	}
	return k.info(namespace, name, p), nil
}

func (k *verifK8s) PodExist(namespace, name string) (bool, error) {
	vrt.Yield()
	k.mu.Lock()
	defer k.mu.Unlock()
	k.existCall++
	id := namespace + "/" + name
	if k.existErr[id] {
		return false, fmt.Errorf("simulated API lookup failure")
	}
	p := k.pods[id]
	return p != nil && p.present, nil
}

func (k *verifK8s) GetServiceCIDR() *types.IPNetSet {
	s := &types.IPNetSet{}
	s.SetIPNet("172.16.0.0/16")
	return s
}
func (k *verifK8s) SetNodeAllocatablePod(count int) error                 { return nil }
func (k *verifK8s) PatchNodeAnnotations(anno map[string]string) error     { return nil }
func (k *verifK8s) PatchPodIPInfo(info *daemon.PodInfo, ips string) error { return nil }
func (k *verifK8s) PatchNodeIPResCondition(status corev1.ConditionStatus, reason, message string) error {
	return nil
}
func (k *verifK8s) RecordNodeEvent(eventType, reason, message string) {}
func (k *verifK8s) RecordPodEvent(podName, podNamespace, eventType, reason, message string) error {
	return nil
}
func (k *verifK8s) GetNodeDynamicConfigLabel() string { return "" }
func (k *verifK8s) GetDynamicConfigWithName(ctx context.Context, name string) (string, error) {
	return "", nil
}
func (k *verifK8s) SetCustomStatefulWorkloadKinds(kinds []string) error { return nil }
func (k *verifK8s) GetTrunkID() string                                  { return "" }
func (k *verifK8s) GetClient() client.Client                            { return nil }
func (k *verifK8s) NodeName() string                                    { return "node-1" }
func (k *verifK8s) Node() *corev1.Node                                  { return nil }

// ---------------------------------------------------------------- the daemon world

type dwCfg struct {
	V4, V6     bool
	Cap, Batch int
	Slots      int
	Pre        [][2]int // attached secondary interfaces: {v4 count incl. primary, v6 count}
	MinIdle    int
	MaxIdle    int
	Least      bool // eni_selection_policy least_ips (default most_ips)
	LoMAC      bool // first interface carries lo's MAC (the only netlink.Device in a fresh netns): "attached" for gcPolicyRoutes
}

type dw struct {
	x     *vrt.Exec
	cfg   dwCfg
	cloud *simcloud.Node
	k8s   *verifK8s
	db    storage.Storage
	mgr   *eni.Manager
	svc   *networkService
	ctx   context.Context
	wg    vrt.WaitGroup
	pre   []string
}

// newDW builds the real networkService over the real pool, a storage and the simulated factory.
func newDW(x *vrt.Exec, cfg dwCfg, db storage.Storage, cloud *simcloud.Node, k *verifK8s) *dw {
	w := &dw{x: x, cfg: cfg, cloud: cloud, k8s: k, db: db}
	pc := &daemon.PoolConfig{EnableIPv4: cfg.V4, EnableIPv6: cfg.V6, MaxIPPerENI: cfg.Cap, BatchSize: cfg.Batch, MaxENI: cfg.Slots, MinPoolSize: cfg.MinIdle, MaxPoolSize: cfg.MaxIdle, Capacity: cfg.Slots * cfg.Cap}
	fresh := len(cloud.ENIs) == 0
	if fresh {
		for i, p := range cfg.Pre {
			e := cloud.AddENI(p[0], p[1], false, false)
			if cfg.LoMAC && i == 0 {
				e.MAC = "00:00:00:00:00:00"
			}
		}
	}
	// the start-up path of daemon/builder.go (setupENIManager), minus the cloud/metadata discovery
	attached, _ := cloud.GetAttachedNetworkInterface("")
	attachedENIID := map[string]*daemon.ENI{}
	for _, a := range attached {
		attachedENIID[a.ID] = a
	}
	objList, err := db.List()
	if err != nil {
		x.Failf("harness/db-list", "%v", err)
		return w
	}
	podResources := getPodResources(objList)
	sort.SliceStable(podResources, func(i, j int) bool {
		if podResources[i].PodInfo == nil || podResources[j].PodInfo == nil {
			return false
		}
		return podResources[i].PodInfo.Name < podResources[j].PodInfo.Name
	})
	podResources = filterENINotFound(podResources, attachedENIID)
	var nis []eni.NetworkInterface
	for _, ni := range attached {
		w.pre = append(w.pre, ni.ID)
		nis = append(nis, eni.NewLocal(ni, "secondary", cloud, pc))
	}
	for i := len(attached); i < cfg.Slots; i++ {
		nis = append(nis, eni.NewLocal(nil, "secondary", cloud, pc))
	}
	pol := daemon.EniSelectionPolicyMostIPs
	if cfg.Least {
		pol = daemon.EniSelectionPolicyLeastIPs
	}
	w.mgr = eni.NewManager(pc.MinPoolSize, pc.MaxPoolSize, pc.Capacity, 0, nis, pol, nil)
	w.svc = &networkService{daemonMode: daemon.ModeENIMultiIP, k8s: k, resourceDB: db, eniMgr: w.mgr, enableIPv4: cfg.V4, enableIPv6: cfg.V6, ipamType: types.IPAMTypeDefault}
	w.ctx = context.Background()
	vrt.Freeze(true)
	if err := w.mgr.Run(w.ctx, &w.svc.wg, podResources); err != nil {
		x.Failf("harness/run", "Manager.Run: %v", err)
	}
	vrt.WaitQuiescent()
	vrt.Freeze(false)
	return w
}

// ---- RPC wrappers recording what a CNI plugin would observe

type dwReply struct {
	Op       string
	Pod, CID string
	Err      string // "" | "processing" | other
	IPs      string // addresses in the reply's NetConfs ("" = none)
	NConf    int
	Inv, Ret int // logical time of invocation / response
}

func (r dwReply) String() string {
	return fmt.Sprintf("%s(%s,%s)=%s[%s]", r.Op, r.Pod, r.CID, r.Err, r.IPs)
}

func confIPs(cs []*rpc.NetConf) string {
	var out []string
	for _, c := range cs {
		if c != nil && c.BasicInfo != nil && c.BasicInfo.PodIP != nil {
			out = append(out, strings.Trim(c.BasicInfo.PodIP.IPv4+"-"+c.BasicInfo.PodIP.IPv6, "-"))
		}
	}
	return strings.Join(out, ",")
}

func errClass(err error) string {
	if err == nil {
		return ""
	}
	if te, ok := err.(*types.Error); ok && te.Code == types.ErrPodIsProcessing {
		return "processing"
	}
	return "error"
}

var dwClock int

func (w *dw) add(ctx context.Context, pod, cid string) dwReply {
	r := dwReply{Op: "ADD", Pod: pod, CID: cid}
	dwClock++
	r.Inv = dwClock
	rep, err := w.svc.AllocIP(ctx, &rpc.AllocIPRequest{K8SPodName: pod, K8SPodNamespace: "ns", K8SPodInfraContainerId: cid, Netns: "/proc/1/ns/net"})
	dwClock++
	r.Ret = dwClock
	r.Err = errClass(err)
	if err == nil {
		r.IPs, r.NConf = confIPs(rep.NetConfs), len(rep.NetConfs)
	}
	return r
}

func (w *dw) del(ctx context.Context, pod, cid string) dwReply {
	r := dwReply{Op: "DEL", Pod: pod, CID: cid}
	dwClock++
	r.Inv = dwClock
	_, err := w.svc.ReleaseIP(ctx, &rpc.ReleaseIPRequest{K8SPodName: pod, K8SPodNamespace: "ns", K8SPodInfraContainerId: cid})
	dwClock++
	r.Ret = dwClock
	r.Err = errClass(err)
	return r
}

func (w *dw) get(ctx context.Context, pod, cid string) dwReply {
	r := dwReply{Op: "GET", Pod: pod, CID: cid}
	dwClock++
	r.Inv = dwClock
	rep, err := w.svc.GetIPInfo(ctx, &rpc.GetInfoRequest{K8SPodName: pod, K8SPodNamespace: "ns", K8SPodInfraContainerId: cid})
	dwClock++
	r.Ret = dwClock
	r.Err = errClass(err)
	if err == nil {
		r.IPs, r.NConf = confIPs(rep.NetConfs), len(rep.NetConfs)
	}
	return r
}

// ---- observations through stable surfaces

// records returns pod -> "cid|ips" from the store.
func (w *dw) records() map[string]string {
	out := map[string]string{}
	list, _ := w.db.List()
	for _, o := range list {
		pr := o.(daemon.PodResources)
		var ips []string
		for _, it := range pr.Resources {
			ips = append(ips, strings.Trim(it.IPv4+"-"+it.IPv6, "-"))
		}
		cid := ""
		if pr.ContainerID != nil {
			cid = *pr.ContainerID
		}
		name := "?"
		if pr.PodInfo != nil {
			name = pr.PodInfo.Name
		}
		out[name] = cid + "|" + strings.Join(ips, ",")
	}
	return out
}

// owned returns pod -> sorted addresses the pool shows as owned by it.
func (w *dw) owned() map[string][]string {
	out := map[string][]string{}
	for _, s := range w.mgr.Status() {
		for _, u := range s.Usage {
			if u[1] != "" {
				p := strings.TrimPrefix(u[1], "ns/")
				out[p] = append(out[p], u[0])
			}
		}
	}
	for _, v := range out {
		sort.Strings(v)
	}
	return out
}

func splitIPs(s string) []string {
	var out []string
	for _, p := range strings.FieldsFunc(s, func(r rune) bool { return r == '-' || r == ',' }) {
		if p != "" {
			out = append(out, p)
		}
	}
	sort.Strings(out)
	return out
}

func dwReport(r *ev.Rec, cfg vrt.Config, res *vrt.Result, body func(*vrt.Exec), t *testing.T) {
	if res.HarnessErr != "" {
		t.Fatalf("harness error in %s: %s", cfg.Name, res.HarnessErr)
	}
	if len(res.Violations) > 0 {
		vrt.Confirm(cfg, res, body, 5)
		if res.HarnessErr != "" {
			t.Fatalf("harness error in %s: %s", cfg.Name, res.HarnessErr)
		}
	}
	for _, v := range res.Violations {
		sig := v.Sig
		if i := strings.Index(sig, "::"); i >= 0 {
			sig = sig[i+2:]
		}
		r.Violate(sig, v.Detail, v.Replay)
	}
	r.States(res.States)
	r.Transitions(res.Steps)
	r.Traces(res.Execs)
	r.Add("executions", res.Execs)
	r.Add("pruned", res.Pruned)
	r.Add("truncated", res.Truncated)
	if !res.Exhaustive {
		r.NotExhaustive()
	}
}

type dwScenario struct {
	Name   string
	Budget [4]int
	Steps  int
	Body   func(x *vrt.Exec)
	Info   map[string]any
}

func dwRun(r *ev.Rec, t *testing.T, scs []dwScenario, quick, thorough time.Duration) {
	si, sn := ev.Shard()
	dl := ev.Deadline(quick, thorough)
	if rp := os.Getenv("VERIF_REPLAY"); rp != "" {
		if si != 0 {
			return
		}
		rep, err := vrt.LoadReplay(rp)
		if err != nil {
			t.Fatal(err)
		}
		for i := range scs {
			if scs[i].Name != rep.Scenario {
				continue
			}
			cfg := vrt.Config{Name: scs[i].Name, Budget: scs[i].Budget, MaxSteps: 8000, Replay: rep.Choices, Delay: true}
			res := vrt.Explore(cfg, scs[i].Body)
			fmt.Printf("REPLAY %s choices=%v\n", scs[i].Name, rep.Choices)
			for _, s := range res.Sample {
				fmt.Println(strings.Join(s.Trace, "\n"))
			}
			for _, v := range res.Violations {
				fmt.Printf("VIOLATION-IN-REPLAY %s\n%s\n", v.Sig, v.Detail)
				r.Violate(strings.SplitN(v.Sig, "::", 2)[1], v.Detail, v.Replay)
			}
			fmt.Println("outcomes:", res.OutcomeList())
			r.Case("replay", rep.Scenario)
			r.Distinct("replay2")
		}
		return
	}
	mine := 0
	for i := range scs {
		if i%sn == si {
			mine++
		}
	}
	for i := range scs {
		if i%sn != si {
			continue
		}
		sc := &scs[i]
		steps := sc.Steps
		if steps == 0 {
			steps = 2500
		}
		// time slicing: an equal share of the remaining budget per scenario of this shard, unused time is passed on
		slice := time.Until(dl) / time.Duration(max(mine, 1))
		mine--
		sdl := time.Now().Add(slice)
		if sdl.After(dl) || mine == 0 {
			sdl = dl
		}
		cfg := vrt.Config{Name: sc.Name, Budget: sc.Budget, MaxSteps: steps, Prune: true, Deadline: sdl, Delay: true}
		res := vrt.Explore(cfg, sc.Body)
		dwReport(r, cfg, res, sc.Body, t)
		info := map[string]any{"scenario": sc.Name, "budget": sc.Budget, "executions": res.Execs, "pruned": res.Pruned, "truncated": res.Truncated, "states": res.States,
			"distinct_outcomes": len(res.Outcomes), "max_depth": res.MaxDepth, "exhaustive": res.Exhaustive}
		for k, v := range sc.Info {
			info[k] = v
		}
		if len(res.Outcomes) <= 6 {
			info["outcomes"] = res.OutcomeList()
		}
		r.Case(fmt.Sprintf("%s/%d", sc.Name, len(res.Outcomes)), info)
		for o := range res.Outcomes {
			r.Distinct(sc.Name + "|" + o)
		}
		if !res.Exhaustive {
			r.NotExhaustive()
		}
		if time.Now().After(dl) {
			r.NotExhaustive()
			break
		}
	}
}
