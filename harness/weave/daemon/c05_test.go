//go:build verif

package daemon

import (
	"encoding/json"
	"fmt"
	"os"
	"path/filepath"
	"reflect"
	"sort"
	"strings"
	"testing"
	"time"
	"unsafe"

	"github.com/boltdb/bolt"

	"github.com/AliyunContainerService/terway/internal/verif/ev"
	vrt "github.com/AliyunContainerService/terway/internal/verif/rt"
	"github.com/AliyunContainerService/terway/internal/verif/simcloud"
	"github.com/AliyunContainerService/terway/pkg/storage"
	"github.com/AliyunContainerService/terway/types/daemon"
)

func c05OpenDB(path string) (storage.Storage, error) {
	return storage.NewDiskStorage(resDBName, path, json.Marshal, func(b []byte) (interface{}, error) {
		rel := &daemon.PodResources{}
		if err := json.Unmarshal(b, rel); err != nil {
			return nil, err
		}
		return *rel, nil
	})
}

func c05CloseDB(s storage.Storage) {
	v := reflect.ValueOf(s)
	if v.Kind() != reflect.Ptr {
		return
	}
	f := v.Elem().FieldByName("db")
	if !f.IsValid() {
		return
	}
	db := reflect.NewAt(f.Type(), unsafe.Pointer(f.UnsafeAddr())).Elem().Interface().(*bolt.DB)
	_ = db.Close()
}

// recStorage reports every durable effect.
type c05RecStorage struct {
	storage.Storage
	after func(what string)
}

func (s *c05RecStorage) Put(k string, v interface{}) error {
	err := s.Storage.Put(k, v)
	s.after("db.Put(" + k + ")")
	return err
}
func (s *c05RecStorage) Delete(k string) error {
	err := s.Storage.Delete(k)
	s.after("db.Delete(" + k + ")")
	return err
}

type c05Snap struct {
	label    string
	db       []byte
	cloud    *simcloud.Node
	acked    map[string]string // pod -> addresses of its acknowledged, not yet (acknowledged-)deleted ADD
	ackedDel map[string]bool   // pods whose latest acknowledged operation is a DEL
	pods     map[string]verifPod
}

func TestVerifC05Crash(t *testing.T) {
	r := ev.New("C05", "crash-points")
	defer r.Flush()
	depth := 3
	if ev.Thorough() {
		depth = 6
	}
	r.Rule(fmt.Sprintf("every history of length <=%d over {ADD(p), DEL(p), ADD(q), DEL(q), vanish(p);gc} (IPv4; dual stack one level shallower) through the real AllocIP/ReleaseIP/gcPods on the real pool with a real bolt-backed DiskStorage; a crash after EACH externally visible effect (cloud call effect, database commit, reply): durable state = bytes of the database file + cloud state at that moment, memory lost; every crash point is recovered - once under the same configuration, once with the per-interface capacity lowered to 1 - with the real start-up path (NewDiskStorage -> load, filterENINotFound, NewLocal(...).Run(stored bindings) via Manager.Run) and probed: acknowledged ADDs still own the same address and have a record, acknowledged DELs have none, a fresh ADD never receives an acknowledged pod's address, pool ownership has a record", depth))
	dir := t.TempDir()
	ops := []string{"add:p", "del:p", "add:q", "del:q", "vanishgc:p"}
	var seqs [][]string
	var rec func(cur []string)
	rec = func(cur []string) {
		if len(cur) > 0 {
			seqs = append(seqs, append([]string{}, cur...))
		}
		if len(cur) == depth {
			return
		}
		for _, o := range ops {
			rec(append(cur, o))
		}
	}
	rec(nil)
	si, sn := ev.Shard()
	dl := ev.Deadline(150*time.Second, 40*time.Minute)
	recoveries := 0
	type job struct {
		cfg dwCfg
		seq []string
	}
	var jobs []job
	for _, seq := range seqs {
		jobs = append(jobs, job{dwCfg{V4: true, Cap: 3, Batch: 1, Slots: 2, Pre: [][2]int{{1, 0}}, MaxIdle: 5}, seq})
	}
	for _, seq := range seqs {
		// dual stack: one level shallower (every request makes two cloud effects)
		if len(seq) < depth {
			jobs = append(jobs, job{dwCfg{V4: true, V6: true, Cap: 3, Batch: 1, Slots: 2, Pre: [][2]int{{1, 1}}, MaxIdle: 5}, append([]string{"dual"}, seq...)})
		}
	}
	for hi, j := range jobs {
		if hi%sn != si {
			continue
		}
		cfg, seq := j.cfg, j.seq
		if time.Now().After(dl) {
			r.NotExhaustive()
			break
		}
		path := filepath.Join(dir, fmt.Sprintf("h%d.db", hi))
		var snaps []c05Snap
		res := vrt.RunOnce("history", 20000, func(x *vrt.Exec) {
			dwClock = 0
			inner, err := c05OpenDB(path)
			if err != nil {
				x.Failf("harness/db", "%v", err)
				return
			}
			defer c05CloseDB(inner)
			k := &verifK8s{pods: map[string]*verifPod{"ns/p": {uid: "uid-p", present: true, local: true}, "ns/q": {uid: "uid-q", present: true, local: true}, "ns/r": {uid: "uid-r", present: true, local: true}}, existErr: map[string]bool{}}
			cloud := simcloud.NewNode()
			acked := map[string]string{}
			ackedDel := map[string]bool{}
			snap := func(label string) {
				b, _ := os.ReadFile(path)
				s := c05Snap{label: label, db: b, cloud: cloud.Clone(), acked: map[string]string{}, ackedDel: map[string]bool{}, pods: map[string]verifPod{}}
				for p, v := range acked {
					s.acked[p] = v
				}
				for p, v := range ackedDel {
					s.ackedDel[p] = v
				}
				for id, p := range k.pods {
					s.pods[id] = *p
				}
				snaps = append(snaps, s)
			}
			db := &c05RecStorage{Storage: inner, after: func(w string) { snap(w) }}
			w := newDW(x, cfg, db, cloud, k)
			cloud.AfterEffect = func(n *simcloud.Node, c *simcloud.Call) { snap("cloud." + c.String()) }
			vrt.Freeze(true)
			snap("start")
			for _, o := range seq {
				f := strings.Split(o, ":")
				switch f[0] {
				case "dual":
					continue
				case "add":
					delete(ackedDel, f[1]) // a new ADD is in flight: its record may legitimately appear before the reply
					rep := w.add(w.ctx, f[1], "c-"+f[1])
					if rep.Err == "" {
						acked[f[1]] = rep.IPs
						delete(ackedDel, f[1])
						snap("reply.ADD(" + f[1] + ")=" + rep.IPs)
					}
				case "del":
					delete(acked, f[1]) // teardown is under way: the pod no longer counts as holding its address
					rep := w.del(w.ctx, f[1], "c-"+f[1])
					if rep.Err == "" {
						delete(acked, f[1])
						ackedDel[f[1]] = true
						snap("reply.DEL(" + f[1] + ")")
					}
				case "vanishgc":
					k.pods["ns/"+f[1]].present, k.pods["ns/"+f[1]].local = false, false
					// the pod is gone: whatever it held is no longer an acknowledged allocation of a live pod
					delete(acked, f[1])
					_ = w.svc.gcPods(w.ctx)
					snap("gc")
				}
				vrt.WaitQuiescent()
			}
			snap("end")
		})
		if res.HarnessErr != "" {
			t.Fatalf("history %v: %s", seq, res.HarnessErr)
		}
		for _, v := range res.Violations {
			r.Violate("history/"+strings.SplitN(v.Sig, "::", 2)[1], fmt.Sprintf("history %v: %s", seq, v.Detail), seq)
		}
		var labels []string
		for ci2 := 0; ci2 < 2*len(snaps); ci2++ {
			// every crash point is recovered twice: with the configuration it ran under, and after the operator lowered the
			// per-interface capacity to 1 (the "switch from multi-IP to one address per interface" restart of Local.load)
			ci, lowerCap := ci2/2, ci2%2 == 1
			s := snaps[ci]
			if !lowerCap {
				labels = append(labels, s.label)
			}
			s.cloud = s.cloud.Clone()
			rcfg := cfg
			variant := ""
			if lowerCap {
				rcfg.Cap = 1
				variant = " [restart with per-interface capacity lowered to 1]"
			}
			rpath := filepath.Join(dir, fmt.Sprintf("r%d.db", si))
			os.Remove(rpath)
			if err := os.WriteFile(rpath, s.db, 0o600); err != nil {
				t.Fatal(err)
			}
			recoveries++
			rr := vrt.RunOnce("recover", 20000, func(x *vrt.Exec) {
				where := fmt.Sprintf("history %v, crash after effect #%d %q (effects so far %v)%s", seq, ci, s.label, labels, variant)
				db, err := c05OpenDB(rpath)
				if err != nil {
					x.Failf("C05/db-does-not-open-after-crash", "%s: %v", where, err)
					return
				}
				defer c05CloseDB(db)
				k := &verifK8s{pods: map[string]*verifPod{}, existErr: map[string]bool{}}
				for id, p := range s.pods {
					p := p
					k.pods[id] = &p
				}
				w := newDW(x, rcfg, db, s.cloud, k)
				if x.Failed() {
					return
				}
				rec, own := w.records(), w.owned()
				var held []string
				for p, ips := range s.acked {
					_, rips, _ := strings.Cut(rec[p], "|")
					if fmt.Sprint(splitIPs(rips)) != fmt.Sprint(splitIPs(ips)) {
						x.Failf("C05/acknowledged-add-not-durable", "%s: ADD(%s)=%s had been acknowledged but the reopened database holds %q", where, p, ips, rec[p])
					}
					if fmt.Sprint(own[p]) != fmt.Sprint(splitIPs(ips)) {
						x.Failf("C05/acknowledged-add-lost-ownership", "%s: ADD(%s)=%s had been acknowledged but the rebuilt pool shows it owning %v", where, p, ips, own[p])
					}
					held = append(held, splitIPs(ips)...)
				}
				for p := range s.ackedDel {
					if v, ok := rec[p]; ok {
						x.Failf("C05/acknowledged-del-not-durable", "%s: DEL(%s) had been acknowledged but the reopened database still holds %q", where, p, v)
					}
					if len(own[p]) > 0 {
						x.Failf("C05/acknowledged-del-still-owns", "%s: DEL(%s) had been acknowledged but the rebuilt pool shows it owning %v", where, p, own[p])
					}
				}
				for p, ips := range own {
					_, rips, _ := strings.Cut(rec[p], "|")
					if fmt.Sprint(ips) != fmt.Sprint(splitIPs(rips)) {
						x.Failf("C05/ownership-without-record", "%s: rebuilt pool shows %v owned by %s, record %q", where, ips, p, rec[p])
					}
				}
				// a fresh pod never receives an acknowledged pod's address
				rep := w.add(w.ctx, "r", "c-r")
				if rep.Err == "" {
					for _, a := range splitIPs(rep.IPs) {
						for _, h := range held {
							if a == h {
								x.Failf("C05/double-allocation-after-restart", "%s: after restart ADD(r) got %s which an acknowledged pod holds (%v)", where, a, s.acked)
							}
						}
					}
				}
				// a retried request of a pod gets its recorded address back
				for _, p := range []string{"p", "q"} {
					if !k.pods["ns/"+p].present {
						continue
					}
					_, rips, _ := strings.Cut(rec[p], "|")
					rep := w.add(w.ctx, p, "c-"+p)
					if rep.Err == "" && rips != "" && fmt.Sprint(splitIPs(rep.IPs)) != fmt.Sprint(splitIPs(rips)) {
						x.Failf("C05/retry-after-restart-different-address", "%s: retried ADD(%s) got %s, its record holds %s", where, p, rep.IPs, rips)
					}
				}
				x.Outcome("ok")
			})
			if rr.HarnessErr != "" {
				t.Fatalf("recovery %v #%d: %s", seq, ci, rr.HarnessErr)
			}
			for _, v := range rr.Violations {
				r.Violate(strings.SplitN(v.Sig, "::", 2)[1], v.Detail, map[string]any{"history": seq, "crash_after_effect": ci, "effect": s.label})
			}
			r.Transitions(rr.Steps)
		}
		sort.Strings(labels)
		r.Case(fmt.Sprintf("%v/%d", seq, len(snaps)), map[string]any{"history": seq, "crash_points": len(snaps), "effects": labels})
		os.Remove(path)
	}
	r.Set("recoveries", recoveries)
	r.States(int64(recoveries))
}
