//go:build verif

package daemon

import (
	"encoding/json"
	"fmt"
	"reflect"
	"sort"
	"strings"
	"testing"

	"github.com/AliyunContainerService/terway/internal/verif/ev"
)

// verifMergePatch is RFC 7396 on decoded JSON (section 2 pseudo-code).
func verifMergePatch(target, patch any) any {
	pm, ok := patch.(map[string]any)
	if !ok {
		return patch
	}
	tm, ok := target.(map[string]any)
	if !ok {
		tm = map[string]any{}
	} else {
		c := map[string]any{}
		for k, v := range tm {
			c[k] = v
		}
		tm = c
	}
	for k, v := range pm {
		if v == nil {
			delete(tm, k)
		} else {
			tm[k] = verifMergePatch(tm[k], v)
		}
	}
	return tm
}

// documents: every value shape for a handful of real Config keys (scalars, map of lists, list, map)
var verifDocKeys = []struct {
	key  string
	vals []string
}{
	{"max_pool_size", []string{`5`, `0`, `"5"`, `null`, `{"a":1}`}},
	{"ip_stack", []string{`"dual"`, `"ipv4"`, `null`, `7`}},
	{"vswitches", []string{`{"z1":["vsw-1"]}`, `{"z1":["vsw-2","vsw-3"],"z2":["vsw-4"]}`, `{"z1":null}`, `null`, `{}`, `["vsw-1"]`, `{"z2":[null]}`}},
	{"security_groups", []string{`["sg-1"]`, `["sg-2","sg-3"]`, `[]`, `null`, `"sg-1"`, `[null]`}},
	{"eni_tags", []string{`{"k":"v"}`, `{"k":null,"j":"w"}`, `null`, `{}`}},
	{"enable_eni_trunking", []string{`true`, `false`, `null`, `"true"`}},
}

func verifDocs(maxKeys int) []string {
	docs := []string{``, `{}`, `null`, `[]`, `7`}
	var rec func(start int, cur []string)
	rec = func(start int, cur []string) {
		if len(cur) > 0 {
			docs = append(docs, "{"+strings.Join(cur, ",")+"}")
		}
		if len(cur) == maxKeys {
			return
		}
		for i := start; i < len(verifDocKeys); i++ {
			for _, v := range verifDocKeys[i].vals {
				rec(i+1, append(append([]string{}, cur...), fmt.Sprintf("%q:%s", verifDocKeys[i].key, v)))
			}
		}
	}
	rec(0, nil)
	return docs
}

func verifCanon(c *Config) string {
	if c == nil {
		return "<nil>"
	}
	b, _ := json.Marshal(c)
	var m map[string]any
	_ = json.Unmarshal(b, &m)
	var ks []string
	for k, v := range m {
		if v == nil || reflect.DeepEqual(v, "") || reflect.DeepEqual(v, float64(0)) || reflect.DeepEqual(v, false) {
			continue
		}
		vb, _ := json.Marshal(v)
		ks = append(ks, k+"="+string(vb))
	}
	sort.Strings(ks)
	return strings.Join(ks, ";")
}

func TestVerifC20Merge(t *testing.T) {
	r := ev.New("C20", "config-merge")
	defer r.Flush()
	nb, no := 2, 2
	if ev.Thorough() {
		nb, no = 2, 3
	}
	r.Rule(fmt.Sprintf("every base document with <=%d and overlay document with <=%d keys drawn from real Config keys (scalar, map-of-lists, list, map) x value shapes (valid, other-typed, null, nested null, empty) plus the non-object documents '', {}, null, [], 7, through the real MergeConfigAndUnmarshal; reference = RFC 7396 merge on decoded JSON followed by the same json.Unmarshal; laws: equals reference, empty overlay ('' and {}) == base, merge(merge(b,o),o) == merge(b,o), keys absent from the overlay keep the base value; distinct = (shape classes, outcome)", nb, no))
	bases := verifDocs(nb)
	overlays := verifDocs(no)
	for _, b := range bases {
		if b == "" {
			continue
		}
		baseCfg := &Config{}
		baseErr := json.Unmarshal([]byte(b), baseCfg)
		for _, o := range overlays {
			rep := map[string]string{"base": b, "overlay": o}
			var got *Config
			var err error
			if p, pv, _ := ev.Guard(func() { got, err = MergeConfigAndUnmarshal([]byte(o), []byte(b)) }); p {
				r.Violate("daemon.MergeConfigAndUnmarshal/panic", fmt.Sprintf("base %s overlay %s: panic %v", b, o, pv), rep)
				continue
			}
			// reference
			var want *Config
			var wantErr error
			if o == "" {
				want, wantErr = baseCfg, baseErr
			} else {
				var bt, ot any
				e1 := json.Unmarshal([]byte(b), &bt)
				e2 := json.Unmarshal([]byte(o), &ot)
				if e1 != nil || e2 != nil {
					wantErr = fmt.Errorf("invalid json")
				} else {
					merged := verifMergePatch(bt, ot)
					mb, _ := json.Marshal(merged)
					want = &Config{}
					wantErr = json.Unmarshal(mb, want)
				}
			}
			cls := fmt.Sprintf("%v/%v", err != nil, wantErr != nil)
			switch {
			case (err != nil) != (wantErr != nil):
				// a document that is not an object is a configuration error either way; only flag when the reference accepts an OBJECT overlay the code rejects or vice versa
				if strings.HasPrefix(o, "{") && strings.HasPrefix(b, "{") {
					r.Violate("daemon.MergeConfigAndUnmarshal/accepts-differs-from-rfc7396", fmt.Sprintf("base %s overlay %s: code err=%v, reference err=%v", b, o, err, wantErr), rep)
				}
			case err == nil && verifCanon(got) != verifCanon(want):
				r.Violate("daemon.MergeConfigAndUnmarshal/differs-from-rfc7396", fmt.Sprintf("base %s overlay %s: got %s, RFC 7396 gives %s", b, o, verifCanon(got), verifCanon(want)), rep)
			}
			if err == nil && baseErr == nil {
				// law: empty overlay changes nothing
				if (o == "" || o == "{}") && verifCanon(got) != verifCanon(baseCfg) {
					r.Violate("daemon.MergeConfigAndUnmarshal/empty-overlay-changes-config", fmt.Sprintf("base %s overlay %q: %s != %s", b, o, verifCanon(got), verifCanon(baseCfg)), rep)
				}
				// law: idempotence, on the JSON level through the Config round trip
				if strings.HasPrefix(o, "{") && strings.HasPrefix(b, "{") {
					gb, _ := json.Marshal(got)
					again, err2 := MergeConfigAndUnmarshal([]byte(o), gb)
					if err2 != nil || verifCanon(again) != verifCanon(got) {
						r.Violate("daemon.MergeConfigAndUnmarshal/not-idempotent", fmt.Sprintf("base %s overlay %s: once %s, twice %s (%v)", b, o, verifCanon(got), verifCanon(again), err2), rep)
					}
					// law: keys absent from the overlay keep the base value
					var om map[string]any
					_ = json.Unmarshal([]byte(o), &om)
					gm, bm := map[string]any{}, map[string]any{}
					gj, _ := json.Marshal(got)
					bj, _ := json.Marshal(baseCfg)
					_ = json.Unmarshal(gj, &gm)
					_ = json.Unmarshal(bj, &bm)
					for k, bv := range bm {
						if _, touched := om[k]; !touched && !reflect.DeepEqual(gm[k], bv) {
							r.Violate("daemon.MergeConfigAndUnmarshal/untouched-key-changed", fmt.Sprintf("base %s overlay %s: key %s was %v, now %v", b, o, k, bv, gm[k]), rep)
						}
					}
				}
			}
			r.Case(cls+"/"+verifCanon(got), rep)
		}
	}
}
