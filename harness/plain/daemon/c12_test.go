//go:build verif

package daemon

import (
	"fmt"
	"testing"

	"github.com/AliyunContainerService/terway/internal/verif/ev"
	"github.com/AliyunContainerService/terway/rpc"
)

func TestVerifC12Defaulting(t *testing.T) {
	r := ev.New("C12", "default-route-and-primary")
	defer r.Flush()
	r.Rule("every list of 1-4 (thorough: 1-6) network configurations over interface names {'', eth0, eth1, eth2} x DefaultRoute flag through the real defaultForNetConf; oracle: accepted lists end with EXACTLY one default-route interface and contain the primary interface ('' or eth0); a list with two default routes or without primary interface is refused; an explicit single default route is never moved")
	names := []string{"", "eth0", "eth1", "eth2"}
	maxLen := 4
	if ev.Thorough() {
		maxLen = 6 // thorough: lists of up to 6 interfaces
	}
	var rec func(cur []*rpc.NetConf)
	rec = func(cur []*rpc.NetConf) {
		if len(cur) > 0 {
			var in []string
			cp := make([]*rpc.NetConf, len(cur))
			nDef, hasPrimary, explicit := 0, false, -1
			for i, c := range cur {
				cc := *c
				cp[i] = &cc
				in = append(in, fmt.Sprintf("%q:%v", c.IfName, c.DefaultRoute))
				if c.DefaultRoute {
					nDef++
					explicit = i
				}
				if c.IfName == "" || c.IfName == "eth0" {
					hasPrimary = true
				}
			}
			var err error
			if p, pv, _ := ev.Guard(func() { err = defaultForNetConf(cp) }); p {
				r.Violate("C12/defaulting/panic", fmt.Sprintf("%v: %v", in, pv), in)
			} else {
				after := 0
				for _, c := range cp {
					if c.DefaultRoute {
						after++
					}
				}
				switch {
				case nDef > 1 || !hasPrimary:
					if err == nil {
						r.Violate("C12/defaulting/inconsistent-list-accepted", fmt.Sprintf("%v accepted (default routes %d, primary %v)", in, nDef, hasPrimary), in)
					}
				case err != nil:
					r.Violate("C12/defaulting/consistent-list-refused", fmt.Sprintf("%v: %v", in, err), in)
				case after != 1:
					r.Violate("C12/defaulting/not-exactly-one-default-route", fmt.Sprintf("%v -> %d default-route interfaces", in, after), in)
				case nDef == 1 && !cp[explicit].DefaultRoute:
					r.Violate("C12/defaulting/explicit-default-route-moved", fmt.Sprintf("%v", in), in)
				}
				r.Case(fmt.Sprintf("%d/%d/%v/%v", len(cur), nDef, hasPrimary, err == nil), in)
			}
		}
		if len(cur) == maxLen {
			return
		}
		for _, n := range names {
			for _, d := range []bool{false, true} {
				rec(append(append([]*rpc.NetConf{}, cur...), &rpc.NetConf{IfName: n, DefaultRoute: d}))
			}
		}
	}
	rec(nil)
}
