//go:build verif

package daemon

import (
	"fmt"
	"os"
	"path/filepath"
	"testing"

	"github.com/AliyunContainerService/terway/internal/verif/ev"
	"github.com/AliyunContainerService/terway/pkg/aliyun/client"
	"github.com/AliyunContainerService/terway/types/daemon"
)

func TestVerifC15Config(t *testing.T) {
	r := ev.New("C15", "configmap-documents")
	defer r.Flush()
	k := 1
	if ev.Thorough() {
		k = 2
	}
	r.Rule(fmt.Sprintf("every eni_conf document obtained from a document that sets EVERY key of the daemon configuration (credentials, vSwitch map, tags, pool sizes, ENI bounds, capacity ratio / shift, selection policies, IP stack, trunking, RDMA, workload kinds, IPAM type, backoff overrides, extra routes, tag filter, client QPS, rate limits, patch switch) by replacing or removing <=%d nodes of its JSON tree with each of %d alternatives, plus non-JSON texts; each as the only document (real GetConfigFromFileWithMerge from a file), as node-level overlay on the complete document and as base under an overlay; then Validate, Populate, the accessors, the REAL getENIConfig (zones known / unknown), getPoolConfig x daemon modes x two instance-limit vectors and checkInstance; oracle: no panic (errors are fine)", k, len(ev.JSONAlternatives)+1))
	full := `{"version":"1","access_key":"ak","access_secret":"sk","region_id":"cn-x","credential_path":"/var/addon","service_cidr":"172.16.0.0/16,fd99::/112","vswitches":{"cn-x-a":["vsw-1","vsw-2"],"cn-x-b":["vsw-3"]},"eni_tags":{"k":"v"},"max_pool_size":5,"min_pool_size":1,"min_eni":0,"max_eni":3,"prefix":"p","security_group":"sg-1","security_groups":["sg-2","sg-3"],"eni_cap_ratio":1,"eni_cap_shift":0,"vswitch_selection_policy":"ordered","eni_selection_policy":"most_ips","ip_stack":"dual","enable_eni_trunking":true,"enable_erdma":true,"custom_stateful_workload_kinds":["foo"],"ipam_type":"default","backoff_override":{"eni_ops":{"Duration":1000000000,"Factor":2,"Jitter":0.1,"Steps":3,"Cap":0}},"extra_routes":[{"dst":"10.0.0.0/8"}],"disable_device_plugin":false,"eni_tag_filter":{"a":"b"},"kube_client_qps":20,"kube_client_burst":30,"resource_group_id":"rg","rate_limit":{"AssignPrivateIpAddresses":5},"enable_patch_pod_ips":true}`
	dir := t.TempDir()
	limits := []*client.Limits{{Adapters: 4, TotalAdapters: 4, IPv4PerAdapter: 10, IPv6PerAdapter: 10, MemberAdapterLimit: 5, MaxMemberAdapterLimit: 5, ERdmaAdapters: 1}, {Adapters: 1, TotalAdapters: 1, IPv4PerAdapter: 1}}
	use := func(cfg *daemon.Config, in any) string {
		out := ""
		if p, pv, st := ev.Guard(func() {
			out += fmt.Sprint(cfg.Validate() == nil)
			cfg.Populate()
			_ = cfg.GetSecurityGroups()
			_ = cfg.GetVSwitchIDs()
			_ = cfg.GetExtraRoutes()
		}); p {
			r.Violate("C15/config-panic/validate-populate", fmt.Sprintf("%v: %v\n%s", in, pv, st), in)
		}
		for _, z := range []string{"cn-x-a", "cn-x-z", ""} {
			if p, pv, st := ev.Guard(func() { _ = getENIConfig(cfg, z) }); p {
				r.Violate("C15/config-panic/getENIConfig", fmt.Sprintf("%v zone=%q: %v\n%s", in, z, pv, st), in)
			}
		}
		for _, mode := range []string{daemon.ModeENIMultiIP, daemon.ModeENIOnly, daemon.ModeVPC, "junk"} {
			for _, l := range limits {
				var err error
				if p, pv, st := ev.Guard(func() {
					_, err = getPoolConfig(cfg, mode, l)
					_, _ = checkInstance(l, mode, cfg)
				}); p {
					r.Violate("C15/config-panic/getPoolConfig", fmt.Sprintf("%v mode=%s: %v\n%s", in, mode, pv, st), in)
				}
				out += fmt.Sprint(err == nil)
			}
		}
		return out
	}
	docs := 0
	one := func(doc, desc string) {
		docs++
		in := map[string]any{"document": doc, "mutation": desc}
		path := filepath.Join(dir, "eni.json")
		_ = os.WriteFile(path, []byte(doc), 0o600)
		var cfg *daemon.Config
		var err error
		if p, pv, st := ev.Guard(func() { cfg, err = daemon.GetConfigFromFileWithMerge(path, nil) }); p {
			r.Violate("C15/config-panic/GetConfigFromFileWithMerge", fmt.Sprintf("%v: %v\n%s", in, pv, st), in)
		} else if err != nil {
			r.Case("alone-rejected", desc)
		} else {
			r.Case("alone/"+use(cfg, in), desc)
		}
		for _, dir := range []string{"overlay", "base"} {
			top, base := []byte(doc), []byte(full)
			if dir == "base" {
				top, base = []byte(`{"max_pool_size":7,"vswitches":{"cn-x-c":["vsw-9"]},"eni_tags":null}`), []byte(doc)
			}
			if p, pv, st := ev.Guard(func() { cfg, err = daemon.MergeConfigAndUnmarshal(top, base) }); p {
				r.Violate("C15/config-panic/MergeConfigAndUnmarshal/"+dir, fmt.Sprintf("%v: %v\n%s", in, pv, st), in)
			} else if err != nil {
				r.Case(dir+"-rejected", desc)
			} else {
				r.Case(dir+"/"+use(cfg, in), desc)
			}
		}
	}
	ev.JSONMutations(full, k, one)
	for _, s := range []string{"", " ", "{", "null", "[]", `"x"`, "7", "{}", `{"eni_cap_ratio":1e400}`, `{"eni_cap_ratio":-1}`, `{"eni_cap_shift":-99999}`, `{"max_eni":-1,"min_eni":9}`, `{"vswitches":{"":[]}}`} {
		one(s, "text:"+s)
	}
	r.Set("documents", docs)
}
