//go:build verif

package daemon

import (
	"fmt"
	"testing"

	"github.com/AliyunContainerService/terway/internal/verif/ev"
	"github.com/AliyunContainerService/terway/pkg/aliyun/client"
	"github.com/AliyunContainerService/terway/types"
	"github.com/AliyunContainerService/terway/types/daemon"
)

func TestVerifC19PoolConfig(t *testing.T) {
	r := ev.New("C19", "daemon-pool-config")
	defer r.Flush()
	r.Rule("every limit vector (adapters 1..4, IPv4 per adapter 1..3 (thorough: 1..7, 1..5), IPv6 per adapter {0, same, other}, member limit {0,5}, RDMA adapters 0..2) x daemon configuration (max_eni {0,1,9}, min_eni {0,1,9}, pool sizes max in {-1,0,2,capacity+1} x min in {-1,0,1,3,capacity+1}, IP stack, trunk, RDMA, IPAM type, default capacity ratio 1 / shift 0) through the real getPoolConfig and checkInstance; oracle: MaxENI within the attachable secondary interfaces, Capacity <= MaxENI x addresses per interface, 0 <= MinPoolSize <= MaxPoolSize <= Capacity, RDMA capacity within its limit, IPv6 / trunk / RDMA switched off when the instance type lacks them")
	maxAd, maxPer := 4, 3
	if ev.Thorough() {
		maxAd, maxPer = 7, 5 // thorough: adapters 1..7, addresses per adapter 1..5
	}
	for ad := 1; ad <= maxAd; ad++ {
		for per := 1; per <= maxPer; per++ {
			for _, v6 := range []int{0, per, per + 1} {
				for _, member := range []int{0, 5} {
					for erd := 0; erd <= 2; erd++ {
						limit := &client.Limits{Adapters: ad, TotalAdapters: ad + member, IPv4PerAdapter: per, IPv6PerAdapter: v6, MemberAdapterLimit: member, MaxMemberAdapterLimit: member, ERdmaAdapters: erd}
						slots := ad - 1
						capacity := slots * per
						for _, maxENI := range []int{0, 1, 9} {
							for _, minENI := range []int{0, 1, 9} {
								for _, maxPool := range []int{-1, 0, 2, capacity + 1} {
									for _, minPool := range []int{-1, 0, 1, 3, capacity + 1} {
										for _, stack := range []string{"ipv4", "dual", "ipv6"} {
											for _, feat := range [][2]bool{{false, false}, {true, false}, {false, true}} {
												for _, ipam := range []types.IPAMType{"", types.IPAMTypeCRD} {
													cfg := &daemon.Config{MaxENI: maxENI, MinENI: minENI, MaxPoolSize: maxPool, MinPoolSize: minPool, IPStack: stack, EnableENITrunking: feat[0], EnableERDMA: feat[1], IPAMType: ipam, EniCapRatio: 1, EniCapShift: 0}
													in := fmt.Sprintf("adapters=%d per=%d v6=%d member=%d erdma=%d | max_eni=%d min_eni=%d max_pool=%d min_pool=%d stack=%s trunk=%v erdma=%v ipam=%q", ad, per, v6, member, erd, maxENI, minENI, maxPool, minPool, stack, feat[0], feat[1], ipam)
													var pc *daemon.PoolConfig
													var err error
													if p, pv, _ := ev.Guard(func() { pc, err = getPoolConfig(cfg, daemon.ModeENIMultiIP, limit) }); p {
														r.Violate("daemon.getPoolConfig/panic", fmt.Sprintf("%s: %v", in, pv), in)
														continue
													}
													if err != nil {
														r.Case("err", in)
														continue
													}
													neg := minPool < 0 || maxPool < 0
													cls := "sane-input"
													if neg {
														cls = "negative-pool-size-input"
													}
													if pc.MaxENI < 0 || pc.MaxENI > slots {
														r.Violate("daemon.getPoolConfig/MaxENI-outside-slots", fmt.Sprintf("%s: MaxENI=%d, attachable secondary interfaces %d", in, pc.MaxENI, slots), in)
													}
													if pc.Capacity < 0 || pc.Capacity > max(pc.MaxENI, 0)*per {
														r.Violate("daemon.getPoolConfig/capacity-over-limit", fmt.Sprintf("%s: Capacity=%d MaxENI=%d per=%d", in, pc.Capacity, pc.MaxENI, per), in)
													}
													if !(0 <= pc.MinPoolSize && pc.MinPoolSize <= pc.MaxPoolSize && pc.MaxPoolSize <= max(pc.Capacity, 0)) {
														r.Violate("daemon.getPoolConfig/watermarks/"+cls, fmt.Sprintf("%s: min=%d max=%d capacity=%d (want 0 <= min <= max <= capacity)", in, pc.MinPoolSize, pc.MaxPoolSize, pc.Capacity), in)
													}
													if pc.MaxIPPerENI != per {
														r.Violate("daemon.getPoolConfig/per-eni-cap", fmt.Sprintf("%s: MaxIPPerENI=%d", in, pc.MaxIPPerENI), in)
													}
													if pc.ERdmaCapacity < 0 || pc.ERdmaCapacity > limit.ERDMARes()*per {
														r.Violate("daemon.getPoolConfig/rdma-capacity", fmt.Sprintf("%s: ERdmaCapacity=%d, limit %d", in, pc.ERdmaCapacity, limit.ERDMARes()*per), in)
													}
													if pc.MaxMemberENI < 0 || pc.MaxMemberENI > member {
														r.Violate("daemon.getPoolConfig/member-eni", fmt.Sprintf("%s: MaxMemberENI=%d", in, pc.MaxMemberENI), in)
													}
													c2 := *cfg
													var e4, e6 bool
													if p, pv, _ := ev.Guard(func() { e4, e6 = checkInstance(limit, daemon.ModeENIMultiIP, &c2) }); p {
														r.Violate("daemon.checkInstance/panic", fmt.Sprintf("%s: %v", in, pv), in)
														continue
													}
													if e6 && (v6 <= 0 || v6 != per) {
														r.Violate("daemon.checkInstance/ipv6-advertised-unsupported", fmt.Sprintf("%s: IPv6 enabled", in), in)
													}
													if c2.EnableENITrunking && member <= 0 {
														r.Violate("daemon.checkInstance/trunk-advertised-unsupported", fmt.Sprintf("%s", in), in)
													}
													if c2.EnableERDMA && limit.ERDMARes() <= 0 {
														r.Violate("daemon.checkInstance/rdma-advertised-unsupported", fmt.Sprintf("%s", in), in)
													}
													_ = e4
													r.Case(fmt.Sprintf("%d/%d/%d/%d/%v/%v/%v", pc.MaxENI, pc.Capacity, pc.MinPoolSize, pc.MaxPoolSize, e6, c2.EnableENITrunking, c2.EnableERDMA), in)
												}
											}
										}
									}
								}
							}
						}
					}
				}
			}
		}
	}
}
