//go:build verif

package main

import (
	"fmt"
	"net"
	"testing"

	"github.com/containernetworking/cni/pkg/skel"

	"github.com/AliyunContainerService/terway/internal/verif/ev"
	"github.com/AliyunContainerService/terway/plugin/driver/types"
	"github.com/AliyunContainerService/terway/rpc"
)

func TestVerifC12Plugin(t *testing.T) {
	r := ev.New("C12", "plugin-parse")
	defer r.Flush()
	r.Rule("every network configuration the daemon can send (family v4/v6/dual x trunk x vid x default route x interface name ''/eth0/eth1 x extra routes 0-2 x pod bandwidth limits) x IP type {ENIMultiIP, VPCENI, VPCIP} x CNI configuration (vlan strip type {'', filter, vlan} x runtime bandwidth override absent/present x MTU x disable_host_peer) through the real parseSetupConf / parseTearDownConf / parseCheckConf / getDatePath; oracle: datapath == reference table of (IP type, trunk, vlan mode) and identical between setup and check; the SetupConfig recovers exactly the addresses, prefix lengths, gateway, extra routes (via that gateway) and limits (runtime override = rate/8)")
	type fam struct{ ip4, cidr4, gw4, ip6, cidr6, gw6 string }
	fams := []fam{{"10.0.1.5", "10.0.0.0/16", "10.0.255.253", "", "", ""}, {"", "", "", "fd00::5", "fd00::/64", "fd00::ffff:ffff:ffff:fffd"}, {"10.0.1.5", "10.0.0.0/16", "10.0.255.253", "fd00::5", "fd00::/64", "fd00::ffff:ffff:ffff:fffd"}}
	refDP := func(t rpc.IPType, trunk bool, strip types.VlanStripType) types.DataPath {
		switch t {
		case rpc.IPType_TypeVPCIP:
			return types.VPCRoute
		case rpc.IPType_TypeVPCENI:
			if trunk {
				return types.Vlan
			}
			return types.ExclusiveENI
		}
		if trunk && strip == types.VlanStripTypeVlan {
			return types.Vlan
		}
		return types.IPVlan
	}
	for _, f := range fams {
		for _, trunk := range []bool{false, true} {
			for _, def := range []bool{false, true} {
				for _, ifn := range []string{"", "eth0", "eth1"} {
					for nr := 0; nr <= 2; nr++ {
						for _, bw := range [][2]uint64{{0, 0}, {1000, 2000}} {
							for _, ipt := range []rpc.IPType{rpc.IPType_TypeENIMultiIP, rpc.IPType_TypeVPCENI, rpc.IPType_TypeVPCIP} {
								for _, strip := range []types.VlanStripType{"", types.VlanStripTypeFilter, types.VlanStripTypeVlan} {
									for _, rtbw := range [][2]int{{0, 0}, {8000, 16000}} {
										alloc := &rpc.NetConf{BasicInfo: &rpc.BasicInfo{PodIP: &rpc.IPSet{IPv4: f.ip4, IPv6: f.ip6}, PodCIDR: &rpc.IPSet{IPv4: f.cidr4, IPv6: f.cidr6}, GatewayIP: &rpc.IPSet{IPv4: f.gw4, IPv6: f.gw6}, ServiceCIDR: &rpc.IPSet{IPv4: "172.16.0.0/16"}},
											ENIInfo: &rpc.ENIInfo{MAC: "", Trunk: trunk, Vid: 7, GatewayIP: &rpc.IPSet{IPv4: f.gw4, IPv6: f.gw6}}, Pod: &rpc.Pod{Ingress: bw[0], Egress: bw[1]}, IfName: ifn, DefaultRoute: def}
										for i := 0; i < nr; i++ {
											if f.ip4 != "" && i == 0 || f.ip6 == "" {
												alloc.ExtraRoutes = append(alloc.ExtraRoutes, &rpc.Route{Dst: fmt.Sprintf("192.168.%d.0/24", i)})
											} else {
												alloc.ExtraRoutes = append(alloc.ExtraRoutes, &rpc.Route{Dst: fmt.Sprintf("fd0%d::/64", i+1)})
											}
										}
										conf := &types.CNIConf{VlanStripType: strip, MTU: 1500}
										conf.RuntimeConfig.Bandwidth.IngressRate, conf.RuntimeConfig.Bandwidth.EgressRate = rtbw[0], rtbw[1]
										in := fmt.Sprintf("v4=%s v6=%s trunk=%v default=%v if=%q routes=%d podbw=%v iptype=%v strip=%q runtimebw=%v", f.ip4, f.ip6, trunk, def, ifn, nr, bw, ipt, strip, rtbw)
										if ipt == rpc.IPType_TypeVPCIP && (f.ip4 == "" || nr > 0) {
											continue // the legacy VPC-route type is never produced by this daemon (AllocIP refuses it); kept for the datapath table only
										}
										args := &skel.CmdArgs{IfName: "eth0"}
										var sc *types.SetupConfig
										var err error
										if p, pv, st := ev.Guard(func() { sc, err = parseSetupConf(args, alloc, conf, ipt) }); p {
											r.Violate("C12/plugin/parseSetupConf-panic", fmt.Sprintf("%s: %v\n%s", in, pv, st), in)
											continue
										}
										if err != nil {
											r.Violate("C12/plugin/valid-configuration-refused", fmt.Sprintf("%s: %v", in, err), in)
											continue
										}
										want := refDP(ipt, trunk, strip)
										if sc.DP != want {
											r.Violate("C12/plugin/datapath-differs-from-table", fmt.Sprintf("%s: datapath %v, table %v", in, sc.DP, want), in)
										}
										cc, cerr := parseCheckConf(args, alloc, conf, ipt)
										if cerr == nil && cc.DP != sc.DP {
											r.Violate("C12/plugin/setup-and-check-disagree-on-datapath", fmt.Sprintf("%s: %v vs %v", in, sc.DP, cc.DP), in)
										}
										if td, terr := parseTearDownConf(alloc, conf, ipt); terr != nil {
											r.Violate("C12/plugin/teardown-refused", fmt.Sprintf("%s: %v", in, terr), in)
										} else if ipt != rpc.IPType_TypeVPCIP && (td.ContainerIPNet == nil || (f.ip4 != "" && (td.ContainerIPNet.IPv4 == nil || !td.ContainerIPNet.IPv4.IP.Equal(net.ParseIP(f.ip4))))) {
											r.Violate("C12/plugin/teardown-address-differs", fmt.Sprintf("%s: %+v", in, td.ContainerIPNet), in)
										}
										if ipt != rpc.IPType_TypeVPCIP {
											chk := func(fam, ip, cidr, gw string, n *net.IPNet, g net.IP) {
												if ip == "" {
													if n != nil {
														r.Violate("C12/plugin/address-of-disabled-family/"+fam, fmt.Sprintf("%s: %v", in, n), in)
													}
													return
												}
												_, c, _ := net.ParseCIDR(cidr)
												ones, _ := c.Mask.Size()
												if n == nil || !n.IP.Equal(net.ParseIP(ip)) {
													r.Violate("C12/plugin/address-not-recovered/"+fam, fmt.Sprintf("%s: got %v", in, n), in)
													return
												}
												if o, _ := n.Mask.Size(); o != ones {
													r.Violate("C12/plugin/prefix-length-not-recovered/"+fam, fmt.Sprintf("%s: got /%d want /%d", in, o, ones), in)
												}
												if !g.Equal(net.ParseIP(gw)) {
													r.Violate("C12/plugin/gateway-not-recovered/"+fam, fmt.Sprintf("%s: got %v", in, g), in)
												}
											}
											var n4, n6 *net.IPNet
											var g4, g6 net.IP
											if sc.ContainerIPNet != nil {
												n4, n6 = sc.ContainerIPNet.IPv4, sc.ContainerIPNet.IPv6
											}
											if sc.GatewayIP != nil {
												g4, g6 = sc.GatewayIP.IPv4, sc.GatewayIP.IPv6
											}
											chk("v4", f.ip4, f.cidr4, f.gw4, n4, g4)
											chk("v6", f.ip6, f.cidr6, f.gw6, n6, g6)
										}
										if len(sc.ExtraRoutes) != nr {
											r.Violate("C12/plugin/extra-routes-not-recovered", fmt.Sprintf("%s: %d routes", in, len(sc.ExtraRoutes)), in)
										}
										for i, rt := range sc.ExtraRoutes {
											if rt.Dst.String() != alloc.ExtraRoutes[i].Dst {
												r.Violate("C12/plugin/extra-route-destination", fmt.Sprintf("%s: %s vs %s", in, rt.Dst.String(), alloc.ExtraRoutes[i].Dst), in)
											}
											wantGW := net.ParseIP(f.gw4)
											if rt.Dst.IP.To4() == nil {
												wantGW = net.ParseIP(f.gw6)
											}
											if !rt.GW.Equal(wantGW) && wantGW != nil {
												r.Violate("C12/plugin/extra-route-gateway", fmt.Sprintf("%s: route %s via %v, subnet gateway %v", in, rt.Dst.String(), rt.GW, wantGW), in)
											}
										}
										wi, we := bw[0], bw[1]
										if rtbw[0] > 0 {
											wi = uint64(rtbw[0] / 8)
										}
										if rtbw[1] > 0 {
											we = uint64(rtbw[1] / 8)
										}
										if sc.Ingress != wi || sc.Egress != we {
											r.Violate("C12/plugin/limits-not-recovered", fmt.Sprintf("%s: ingress %d egress %d, want %d %d", in, sc.Ingress, sc.Egress, wi, we), in)
										}
										wantName := ifn
										if wantName == "" {
											wantName = "eth0"
										}
										if sc.ContainerIfName != wantName || sc.DefaultRoute != def || sc.StripVlan != trunk || (trunk && sc.Vid != 7) {
											r.Violate("C12/plugin/flags-not-recovered", fmt.Sprintf("%s: name %q default %v strip %v vid %d", in, sc.ContainerIfName, sc.DefaultRoute, sc.StripVlan, sc.Vid), in)
										}
										r.Case(fmt.Sprintf("%v/%v/%v/%v/%d", ipt, trunk, strip, sc.DP, nr), in)
									}
								}
							}
						}
					}
				}
			}
		}
	}
}
