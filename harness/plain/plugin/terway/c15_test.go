//go:build verif

package main

import (
	"fmt"
	"testing"

	"github.com/containernetworking/cni/pkg/skel"

	"github.com/AliyunContainerService/terway/internal/verif/ev"
	"github.com/AliyunContainerService/terway/plugin/driver/types"
	"github.com/AliyunContainerService/terway/rpc"
)

func TestVerifC15CNI(t *testing.T) {
	r := ev.New("C15", "cni-configuration")
	defer r.Flush()
	k := 1
	if ev.Thorough() {
		k = 2
	}
	r.Rule(fmt.Sprintf("every CNI network configuration obtained from a complete terway configuration (cniVersion, name, type, capabilities, ipam, dns, prevResult-free; veth prefix, virtual type, host stack CIDRs, peer / vlan / MTU / bandwidth-mode / priority settings, runtimeConfig with bandwidth and port mappings) by replacing or removing <=%d nodes of its JSON tree with each of %d alternatives, plus non-JSON texts, x CNI_ARGS strings {well-formed, empty, missing values, unknown keys, duplicate separators} through the REAL getCmdArgs and then, with the decoded configuration, parseSetupConf / parseTearDownConf / parseCheckConf / getDatePath for a valid daemon reply x IP types; oracle: no panic (errors are fine)", k, len(ev.JSONAlternatives)+1))
	confT := `{"cniVersion":"0.4.0","name":"terway-chainer","type":"terway","capabilities":{"bandwidth":true},"ipam":{"type":"x"},"dns":{"nameservers":["1.1.1.1"]},"veth_prefix":"cali","eniip_virtual_type":"IPVlan","host_stack_cidrs":["169.254.20.10/32"],"disable_host_peer":false,"vlan_strip_type":"filter","mtu":1500,"runtimeConfig":{"bandwidth":{"ingressRate":8000,"ingressBurst":100,"egressRate":16000,"egressBurst":100},"portMappings":[{"hostPort":80,"containerPort":80,"protocol":"tcp"}]},"bandwidth_mode":"edt","enable_network_priority":true,"debug":false}`
	good := &rpc.NetConf{BasicInfo: &rpc.BasicInfo{PodIP: &rpc.IPSet{IPv4: "10.0.1.5", IPv6: "fd00::5"}, PodCIDR: &rpc.IPSet{IPv4: "10.0.0.0/16", IPv6: "fd00::/64"}, GatewayIP: &rpc.IPSet{IPv4: "10.0.255.253", IPv6: "fd00::fffd"}, ServiceCIDR: &rpc.IPSet{IPv4: "172.16.0.0/16", IPv6: "fd99::/112"}},
		ENIInfo: &rpc.ENIInfo{MAC: "", Trunk: true, Vid: 7, GatewayIP: &rpc.IPSet{IPv4: "10.0.255.253", IPv6: "fd00::fffd"}}, Pod: &rpc.Pod{Ingress: 1000, Egress: 2000, NetworkPriority: "guaranteed"}, IfName: "eth0", ExtraRoutes: []*rpc.Route{{Dst: "192.168.0.0/24"}}, DefaultRoute: true}
	ipTypes := []rpc.IPType{rpc.IPType_TypeENIMultiIP, rpc.IPType_TypeVPCENI, rpc.IPType_TypeVPCIP}
	parsers := func(where string, conf *types.CNIConf, alloc *rpc.NetConf, in any) string {
		out := ""
		args := &skel.CmdArgs{IfName: "eth0", ContainerID: "c", Netns: "/proc/self/ns/net"}
		for _, ipt := range ipTypes {
			if ipt == rpc.IPType_TypeVPCIP {
				// the legacy VPC-route reply carries no extra routes (and this daemon never sends that type)
				c := *alloc
				c.ExtraRoutes = nil
				alloc = &c
			}
			var e1, e2, e3 error
			if p, pv, st := ev.Guard(func() { _, e1 = parseSetupConf(args, alloc, conf, ipt) }); p {
				r.Violate("C15/plugin-panic/parseSetupConf/"+where, fmt.Sprintf("%v iptype=%v: %v\n%s", in, ipt, pv, st), in)
			}
			if p, pv, st := ev.Guard(func() { _, e2 = parseTearDownConf(alloc, conf, ipt) }); p {
				r.Violate("C15/plugin-panic/parseTearDownConf/"+where, fmt.Sprintf("%v iptype=%v: %v\n%s", in, ipt, pv, st), in)
			}
			if p, pv, st := ev.Guard(func() { _, e3 = parseCheckConf(args, alloc, conf, ipt) }); p {
				r.Violate("C15/plugin-panic/parseCheckConf/"+where, fmt.Sprintf("%v iptype=%v: %v\n%s", in, ipt, pv, st), in)
			}
			if p, pv, st := ev.Guard(func() { _ = getDatePath(ipt, conf.VlanStripType, alloc.GetENIInfo().GetTrunk()) }); p {
				r.Violate("C15/plugin-panic/getDatePath/"+where, fmt.Sprintf("%v iptype=%v: %v\n%s", in, ipt, pv, st), in)
			}
			out += fmt.Sprintf("%v%v%v", e1 == nil, e2 == nil, e3 == nil)
		}
		return out
	}
	cniArgs := []string{"K8S_POD_NAME=p;K8S_POD_NAMESPACE=ns;K8S_POD_INFRA_CONTAINER_ID=c;IgnoreUnknown=1", "", ";", "K8S_POD_NAME", "K8S_POD_NAME=", "=x", "K8S_POD_NAME=p;;K8S_POD_NAMESPACE=ns", "FOO=bar", "IgnoreUnknown=x;FOO=bar", "K8S_POD_NAME=a=b"}
	docs := 0
	one := func(doc, desc string) {
		docs++
		for ai, a := range cniArgs {
			if ai > 0 && desc != "unchanged" {
				break // the argument string is parsed independently of the document
			}
			args := &skel.CmdArgs{IfName: "eth0", ContainerID: "c", Netns: "/proc/self/ns/net", StdinData: []byte(doc), Args: a}
			var ca *cniCmdArgs
			var err error
			in := map[string]any{"stdin": doc, "mutation": desc, "args": a}
			if p, pv, st := ev.Guard(func() { ca, err = getCmdArgs(args) }); p {
				r.Violate("C15/plugin-panic/getCmdArgs", fmt.Sprintf("%v: %v\n%s", in, pv, st), in)
				continue
			}
			if err != nil {
				r.Case("conf-rejected/"+fmt.Sprint(ai), desc)
				continue
			}
			if ca.netNS != nil {
				_ = ca.netNS.Close()
			}
			o := parsers("cni-conf", ca.conf, good, in)
			r.Case("conf-accepted/"+o, desc)
		}
	}
	ev.JSONMutations(confT, k, one)
	for _, s := range []string{"", " ", "{", "null", "[]", `"x"`, "7", `{"mtu":1e99}`, `{"mtu":-1}`, `{"runtimeConfig":null}`} {
		one(s, "text:"+s)
	}
	r.Set("documents", docs)
}
