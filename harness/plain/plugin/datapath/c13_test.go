//go:build verif

package datapath

import (
	"context"
	"fmt"
	"net"
	"os"
	"runtime"
	"sort"
	"strings"
	"testing"
	"time"

	cniTypes "github.com/containernetworking/cni/pkg/types"
	"github.com/containernetworking/plugins/pkg/ns"
	"github.com/containernetworking/plugins/pkg/testutils"
	"github.com/vishvananda/netlink"
	"golang.org/x/sys/unix"

	"github.com/AliyunContainerService/terway/internal/verif/ev"
	"github.com/AliyunContainerService/terway/plugin/driver/nic"
	"github.com/AliyunContainerService/terway/plugin/driver/types"
	"github.com/AliyunContainerService/terway/plugin/driver/utils"
	terwayTypes "github.com/AliyunContainerService/terway/types"
)

// ---------------------------------------------------------------- L1: configuration level, all datapaths

func c13Link(name string, idx int) netlink.Link {
	return &netlink.Dummy{LinkAttrs: netlink.LinkAttrs{Name: name, Index: idx, HardwareAddr: net.HardwareAddr{0, 0x16, 0x3e, 0, 0, byte(idx)}}}
}

func c13Fam(ip net.IP) string {
	if ip == nil {
		return ""
	}
	if ip.To4() != nil {
		return "4"
	}
	return "6"
}

// c13Families lists which address families a generated configuration touches.
func c13Families(c *nic.Conf) map[string][]string {
	out := map[string][]string{}
	add := func(f, what string) {
		if f != "" {
			out[f] = append(out[f], what)
		}
	}
	for _, a := range c.Addrs {
		add(c13Fam(a.IP), "addr "+a.IPNet.String())
	}
	for _, r := range c.Routes {
		if r.Dst != nil {
			add(c13Fam(r.Dst.IP), "route "+r.Dst.String())
		}
		add(c13Fam(r.Gw), "route via "+r.Gw.String())
	}
	for _, r := range c.Rules {
		if r.Src != nil {
			add(c13Fam(r.Src.IP), "rule from "+r.Src.String())
		}
		if r.Dst != nil {
			add(c13Fam(r.Dst.IP), "rule to "+r.Dst.String())
		}
	}
	for _, n := range c.Neighs {
		add(c13Fam(n.IP), "neigh "+n.IP.String())
	}
	for k := range c.SysCtl {
		if strings.Contains(k, "ipv6") {
			add("6", "sysctl "+k)
		}
	}
	return out
}

func c13Defaults(c *nic.Conf, fam string) int {
	n := 0
	for _, r := range c.Routes {
		if r.Dst == nil || r.Table != 0 && r.Table != unix.RT_TABLE_MAIN {
			continue
		}
		ones, _ := r.Dst.Mask.Size()
		if ones == 0 && c13Fam(r.Dst.IP) == fam {
			n++
		}
	}
	return n
}

// reference FIB for the host namespace of the policy-route datapath: rules by priority, per-table longest prefix match
type c13FIB struct {
	rules  []*netlink.Rule
	routes []*netlink.Route
}

func (f *c13FIB) lookup(src, dst net.IP) *netlink.Route {
	rules := append([]*netlink.Rule{}, f.rules...)
	rules = append(rules, &netlink.Rule{Priority: 32766, Table: unix.RT_TABLE_MAIN})
	sort.SliceStable(rules, func(i, j int) bool { return rules[i].Priority < rules[j].Priority })
	for _, ru := range rules {
		if ru.Src != nil && (src == nil || !ru.Src.Contains(src)) {
			continue
		}
		if ru.Dst != nil && !ru.Dst.Contains(dst) {
			continue
		}
		if ru.Src != nil && c13Fam(ru.Src.IP) != c13Fam(dst) || ru.Dst != nil && c13Fam(ru.Dst.IP) != c13Fam(dst) {
			continue
		}
		var best *netlink.Route
		bestLen := -1
		for _, rt := range f.routes {
			t := rt.Table
			if t == 0 {
				t = unix.RT_TABLE_MAIN
			}
			if t != ru.Table || rt.Dst == nil || c13Fam(rt.Dst.IP) != c13Fam(dst) || !rt.Dst.Contains(dst) {
				continue
			}
			if l, _ := rt.Dst.Mask.Size(); l > bestLen {
				best, bestLen = rt, l
			}
		}
		if best != nil {
			return best
		}
	}
	return nil
}

func TestVerifC13Config(t *testing.T) {
	r := ev.New("C13", "generated-configuration")
	defer r.Flush()
	r.Rule("every SetupConfig over family {v4, v6, dual} x DefaultRoute x MultiNetwork x extra routes {none, via gateway, on-link} x StripVlan/trunk x DisableCreatePeer x 2 address sets through the REAL generators of all four datapaths (policy-route veth: container / host peer / ENI; exclusive ENI: container / veth1 / host slave; ipvlan: container / ENI / slave; vlan: container / ENI) with synthetic links; oracle: no address, route, rule, neighbour or IPv6 sysctl of a disabled family anywhere; the container side has exactly one default route per enabled family iff DefaultRoute; for the policy-route datapath a reference FIB (rules by priority, per-table longest-prefix match) loaded with the generated host-side configuration sends traffic for the pod's address to the pod's host link and traffic sourced from the pod out of the owning ENI via that ENI's gateway (the trunk gateway when vlan-stripping)")
	type addrSet struct {
		ip4, gw4, ip6, gw6, egw4, egw6 string
	}
	sets := []addrSet{{"10.0.1.5/16", "10.0.255.253", "fd00::5/64", "fd00::ffff:ffff:ffff:fffd", "10.9.255.253", "fd09::fffd"}, {"192.168.7.200/24", "192.168.7.253", "2408:4005::1:2/120", "2408:4005::1:fd", "192.168.0.253", "2408:4005::fd"}}
	for _, as := range sets {
		for _, fam := range []string{"4", "6", "46"} {
			for _, def := range []bool{false, true} {
				for _, multi := range []bool{false, true} {
					for _, extra := range []string{"none", "via", "onlink"} {
						for _, strip := range []bool{false, true} {
							for _, noPeer := range []bool{false, true} {
								cfg := &types.SetupConfig{ContainerIfName: "eth0", HostVETHName: "cali123", MTU: 1500, ENIIndex: 5, DefaultRoute: def, MultiNetwork: multi, StripVlan: strip, Vid: 7, DisableCreatePeer: noPeer,
									ContainerIPNet: &terwayTypes.IPNetSet{}, GatewayIP: &terwayTypes.IPSet{}, ENIGatewayIP: &terwayTypes.IPSet{}, HostIPSet: &terwayTypes.IPNetSet{}, ServiceCIDR: &terwayTypes.IPNetSet{}}
								if strings.Contains(fam, "4") {
									ip, n, _ := net.ParseCIDR(as.ip4)
									cfg.ContainerIPNet.IPv4 = &net.IPNet{IP: ip, Mask: n.Mask}
									cfg.GatewayIP.IPv4, cfg.ENIGatewayIP.IPv4 = net.ParseIP(as.gw4), net.ParseIP(as.egw4)
									cfg.HostIPSet.IPv4 = &net.IPNet{IP: net.ParseIP("10.0.9.9"), Mask: net.CIDRMask(16, 32)}
									_, cfg.ServiceCIDR.IPv4, _ = net.ParseCIDR("172.16.0.0/16")
								}
								if strings.Contains(fam, "6") {
									ip, n, _ := net.ParseCIDR(as.ip6)
									cfg.ContainerIPNet.IPv6 = &net.IPNet{IP: ip, Mask: n.Mask}
									cfg.GatewayIP.IPv6, cfg.ENIGatewayIP.IPv6 = net.ParseIP(as.gw6), net.ParseIP(as.egw6)
									cfg.HostIPSet.IPv6 = &net.IPNet{IP: net.ParseIP("fd00::99"), Mask: net.CIDRMask(64, 128)}
									_, cfg.ServiceCIDR.IPv6, _ = net.ParseCIDR("fd99::/112")
								}
								if extra != "none" {
									if cfg.ContainerIPNet.IPv4 != nil {
										_, d, _ := net.ParseCIDR("172.20.0.0/16")
										rt := cniTypes.Route{Dst: *d}
										if extra == "via" {
											rt.GW = cfg.GatewayIP.IPv4
										}
										cfg.ExtraRoutes = append(cfg.ExtraRoutes, rt)
									} else {
										_, d, _ := net.ParseCIDR("fd20::/64")
										rt := cniTypes.Route{Dst: *d}
										if extra == "via" {
											rt.GW = cfg.GatewayIP.IPv6
										}
										cfg.ExtraRoutes = append(cfg.ExtraRoutes, rt)
									}
								}
								in := fmt.Sprintf("addrs=%s/%s family=%s default=%v multi=%v extra=%s strip=%v nopeer=%v", as.ip4, as.ip6, fam, def, multi, extra, strip, noPeer)
								cont, host, eni := c13Link("eth0", 3), c13Link("cali123", 9), c13Link("eth1", 5)
								table := utils.GetRouteTableID(5)
								gen := map[string]func() *nic.Conf{
									"policy/container":    func() *nic.Conf { return generateContCfgForPolicy(cfg, cont, host.Attrs().HardwareAddr) },
									"policy/host-peer":    func() *nic.Conf { return GenerateHostPeerCfgForPolicy(cfg, host, table) },
									"policy/eni":          func() *nic.Conf { return GenerateENICfgForPolicy(cfg, eni, table) },
									"exclusive/container": func() *nic.Conf { return generateContCfgForExclusiveENI(cfg, cont) },
									"exclusive/veth1":     func() *nic.Conf { return generateVeth1Cfg(cfg, cont, host.Attrs().HardwareAddr) },
									"exclusive/host":      func() *nic.Conf { return generateHostSlaveCfg(cfg, host) },
									"ipvlan/container":    func() *nic.Conf { return generateContCfgForIPVlan(cfg, cont) },
									"ipvlan/eni":          func() *nic.Conf { return generateENICfgForIPVlan(cfg, eni) },
									"ipvlan/slave":        func() *nic.Conf { return generateSlaveLinkCfgForIPVlan(cfg, host) },
									"vlan/container":      func() *nic.Conf { return generateContCfgForVlan(cfg, cont) },
									"vlan/eni":            func() *nic.Conf { return generateENICfgForVlan(cfg) },
								}
								var names []string
								for k := range gen {
									names = append(names, k)
								}
								sort.Strings(names)
								confs := map[string]*nic.Conf{}
								for _, name := range names {
									var c *nic.Conf
									if p, pv, st := ev.Guard(func() { c = gen[name]() }); p {
										r.Violate("C13/generator-panic/"+name, fmt.Sprintf("%s: %v\n%s", in, pv, st), in)
										continue
									}
									if c == nil {
										continue
									}
									confs[name] = c
									fams := c13Families(c)
									for _, f := range []string{"4", "6"} {
										if !strings.Contains(fam, f) && len(fams[f]) > 0 {
											// link-local helper addresses of the veth scheme are family artefacts too
											r.Violate("C13/disabled-family-configured/"+name+"/v"+f, fmt.Sprintf("%s: %s creates %v although IPv%s is disabled", in, name, fams[f], f), in)
										}
									}
									if strings.HasSuffix(name, "/container") {
										for _, f := range []string{"4", "6"} {
											if !strings.Contains(fam, f) {
												continue
											}
											want := 0
											if def {
												want = 1
											}
											if got := c13Defaults(c, f); got != want {
												r.Violate("C13/container-default-routes/"+name, fmt.Sprintf("%s: %s has %d IPv%s default routes in the main table, want %d", in, name, got, f, want), in)
											}
										}
									}
									r.Case(fmt.Sprintf("%s/%s/%v/%v/%s/%v", name, fam, def, multi, extra, strip), nil)
								}
								// reference FIB of the host namespace, policy-route datapath
								if hp, ec := confs["policy/host-peer"], confs["policy/eni"]; hp != nil && ec != nil {
									fib := &c13FIB{}
									fib.rules = append(fib.rules, hp.Rules...)
									fib.rules = append(fib.rules, ec.Rules...)
									fib.routes = append(fib.routes, hp.Routes...)
									fib.routes = append(fib.routes, ec.Routes...)
									for _, f := range []string{"4", "6"} {
										if !strings.Contains(fam, f) {
											continue
										}
										var pod, gw, ext net.IP
										if f == "4" {
											pod, gw, ext = cfg.ContainerIPNet.IPv4.IP, cfg.GatewayIP.IPv4, net.ParseIP("8.8.8.8")
											if strip {
												gw = cfg.ENIGatewayIP.IPv4
											}
										} else {
											pod, gw, ext = cfg.ContainerIPNet.IPv6.IP, cfg.GatewayIP.IPv6, net.ParseIP("2001:db8::1")
											if strip {
												gw = cfg.ENIGatewayIP.IPv6
											}
										}
										to := fib.lookup(net.ParseIP("100.64.0.1"), pod)
										if f == "6" {
											to = fib.lookup(net.ParseIP("2001:db8::9"), pod)
										}
										if to == nil || to.LinkIndex != host.Attrs().Index {
											r.Violate("C13/policy/to-pod-traffic-not-delivered-to-pod-link/v"+f, fmt.Sprintf("%s: lookup of %s gives %v, the pod's host link has index %d", in, pod, to, host.Attrs().Index), in)
										}
										from := fib.lookup(pod, ext)
										if from == nil || from.LinkIndex != eni.Attrs().Index || !from.Gw.Equal(gw) || from.Table != table {
											r.Violate("C13/policy/from-pod-traffic-not-via-owning-eni/v"+f, fmt.Sprintf("%s: lookup from %s to %s gives %v, want dev index %d via %s table %d", in, pod, ext, from, eni.Attrs().Index, gw, table), in)
										}
									}
								}
								r.Case("fib/"+fam+fmt.Sprint(def, multi, extra, strip), in)
							}
						}
					}
				}
			}
		}
	}
}

// ---------------------------------------------------------------- L2: the real kernel

type c13Pod struct {
	name, veth string
	ip4, ip6   string
	nsp        ns.NetNS
	up         bool
	eni        int // index into enis of the latest setup
	leaked     bool
}

type c13FamT struct {
	name   string
	nl     int
	bits   int
	ext    net.IP
	gw     net.IP
	hostIP *net.IPNet
}

var c13Fams = map[string]c13FamT{
	"4": {"4", netlink.FAMILY_V4, 32, net.ParseIP("8.8.8.8"), net.ParseIP("169.10.0.253"), &net.IPNet{IP: net.ParseIP("169.20.0.10"), Mask: net.CIDRMask(24, 32)}},
	"6": {"6", netlink.FAMILY_V6, 128, net.ParseIP("2001:db8::1"), net.ParseIP("fd10::fd"), &net.IPNet{IP: net.ParseIP("fd20::10"), Mask: net.CIDRMask(64, 128)}},
}

func (p *c13Pod) addr(f c13FamT) net.IP {
	if f.name == "4" {
		return net.ParseIP(p.ip4)
	}
	return net.ParseIP(p.ip6)
}

func (p *c13Pod) ipset(fam string) *terwayTypes.IPNetSet {
	s := &terwayTypes.IPNetSet{}
	if strings.Contains(fam, "4") {
		s.IPv4 = &net.IPNet{IP: net.ParseIP(p.ip4), Mask: net.CIDRMask(24, 32)}
	}
	if strings.Contains(fam, "6") {
		s.IPv6 = &net.IPNet{IP: net.ParseIP(p.ip6), Mask: net.CIDRMask(64, 128)}
	}
	return s
}

func c13Sets(fam string) (gw *terwayTypes.IPSet, host *terwayTypes.IPNetSet) {
	gw, host = &terwayTypes.IPSet{}, &terwayTypes.IPNetSet{}
	if strings.Contains(fam, "4") {
		gw.IPv4, host.IPv4 = c13Fams["4"].gw, c13Fams["4"].hostIP
	}
	if strings.Contains(fam, "6") {
		gw.IPv6, host.IPv6 = c13Fams["6"].gw, c13Fams["6"].hostIP
	}
	return
}

// c13KernelFIB dumps the rules and routes the kernel holds for one family into the reference evaluator.
func c13KernelFIB(f c13FamT) *c13FIB {
	fib := &c13FIB{}
	krules, _ := netlink.RuleList(f.nl)
	for i := range krules {
		if krules[i].Table != unix.RT_TABLE_LOCAL {
			fib.rules = append(fib.rules, &krules[i])
		}
	}
	kroutes, _ := netlink.RouteListFiltered(f.nl, &netlink.Route{Table: unix.RT_TABLE_UNSPEC}, netlink.RT_FILTER_TABLE)
	for i := range kroutes {
		if kroutes[i].Table == unix.RT_TABLE_LOCAL {
			continue
		}
		if kroutes[i].Dst == nil {
			kroutes[i].Dst = &net.IPNet{IP: make(net.IP, f.bits/8), Mask: net.CIDRMask(0, f.bits)}
			if f.name == "4" {
				kroutes[i].Dst.IP = net.IPv4zero
			}
		}
		fib.routes = append(fib.routes, &kroutes[i])
	}
	return fib
}

func c13DefaultRoutes(f c13FamT) int {
	rts, _ := netlink.RouteList(nil, f.nl)
	n := 0
	for _, rt := range rts {
		if rt.Dst == nil {
			n++
			continue
		}
		if o, _ := rt.Dst.Mask.Size(); o == 0 {
			n++
		}
	}
	return n
}

// c13NewNS creates a network namespace, retrying a few times: under heavy parallel load the bind mount behind
// testutils.NewNS fails now and then. A namespace that still cannot be created is reported to the caller, never
// dereferenced.
func c13NewNS() (ns.NetNS, error) {
	var err error
	for i := 0; i < 5; i++ {
		var n ns.NetNS
		if n, err = testutils.NewNS(); err == nil && n != nil {
			return n, nil
		}
		time.Sleep(time.Duration(50*(i+1)) * time.Millisecond)
	}
	if err == nil {
		err = fmt.Errorf("no namespace returned")
	}
	return nil, err
}

// c13CloseAll releases whatever namespaces were created for one history.
func c13CloseAll(pods map[string]*c13Pod, host ns.NetNS) {
	for _, p := range pods {
		if p.nsp != nil {
			_ = p.nsp.Close()
			_ = testutils.UnmountNS(p.nsp)
		}
	}
	if host != nil {
		_ = host.Close()
		_ = testutils.UnmountNS(host)
	}
}

func c13EnableForwarding() bool {
	ok := os.WriteFile("/proc/sys/net/ipv4/ip_forward", []byte("1"), 0644) == nil
	for _, k := range []string{"all", "default"} {
		_ = os.WriteFile("/proc/sys/net/ipv4/conf/"+k+"/rp_filter", []byte("0"), 0644)
	}
	ok = os.WriteFile("/proc/sys/net/ipv6/conf/all/forwarding", []byte("1"), 0644) == nil && ok
	return ok
}

func c13AddENI(name string) netlink.Link {
	_ = netlink.LinkAdd(&netlink.Veth{LinkAttrs: netlink.LinkAttrs{Name: name}, PeerName: name + "p"})
	l, _ := netlink.LinkByName(name)
	if pl, err := netlink.LinkByName(name + "p"); err == nil {
		_ = netlink.LinkSetUp(pl)
	}
	if l != nil {
		_ = netlink.LinkSetUp(l)
	}
	return l
}

// c13Histories enumerates every event sequence of length <= depth that the closed environment allows.
func c13Histories(events []string, depth int, enabled func(ev string, st map[string]string) (string, bool)) [][]string {
	var seqs [][]string
	var rec func(cur []string, st map[string]string)
	rec = func(cur []string, st map[string]string) {
		if len(cur) > 0 {
			seqs = append(seqs, append([]string{}, cur...))
		}
		if len(cur) == depth {
			return
		}
		for _, e := range events {
			ns2, ok := enabled(e, st)
			if !ok {
				continue
			}
			n := map[string]string{}
			for k, v := range st {
				n[k] = v
			}
			n[strings.Split(e, ":")[1]] = ns2
			rec(append(cur, e), n)
		}
	}
	rec(nil, map[string]string{})
	sort.SliceStable(seqs, func(i, j int) bool { return len(seqs[i]) < len(seqs[j]) })
	return seqs
}

func TestVerifC13Kernel(t *testing.T) {
	r := ev.New("C13", "kernel-policy-route")
	defer r.Flush()
	depth := 5
	if ev.Thorough() {
		depth = 7
	}
	r.Rule(fmt.Sprintf("REAL PolicyRoute.Setup/Teardown against the running kernel in private network namespaces (an 'ENI' is one end of a veth pair), for family in {v4, v6, dual}: every event sequence of length <=%d over {setup(A on eni1), setup(B on eni1), setup(C on eni2) where C re-uses A's addresses, teardown(A|B|C), teardown with an unresolvable ENI (interface index 0) for A and C, sandbox-gone(A|B|C) = generic link cleanup without the datapath teardown} that the CNI contract and the IPAM allow; after every event, for every pod that is up and every enabled family: the kernel's own FIB (netlink RouteGet) delivers traffic for its address to its host veth; traffic sourced from it leaves by the ENI of its latest setup via the gateway, decided both by the reference FIB over the kernel's rule and route dump and by the kernel's forwarding lookup (route get from <pod> iif <veth>); exactly one from-pod rule exists for the address; the pod namespace has exactly one default route per enabled family and none for a disabled one; after teardown(p) no rule, route or link of p is left in the host namespace and, by the same per-event lookups, nothing of another pod was removed", depth))
	if os.Geteuid() != 0 {
		r.NotExhaustive()
		r.Set("skipped", "not root")
		return
	}
	runtime.LockOSThread()
	defer runtime.UnlockOSThread()
	events := []string{"setup:A", "setup:B", "setup:C", "teardown:A", "teardown:B", "teardown:C", "teardown0:A", "teardown0:C", "gone:A", "gone:B", "gone:C"}
	// (teardown0 = the DEL arrives when the ENI can no longer be resolved: the plugin passes interface index 0)
	// the environment is closed by what the CNI contract and the IPAM allow: one ADD per sandbox until its DEL (or
	// its disappearance), an address is never handed to a second pod while the first still runs, and a DEL of a
	// sandbox that already disappeared and whose address meanwhile belongs to another pod carries no datapath
	// teardown (the daemon has no record of it any more)
	peer := map[string]string{"A": "C", "C": "A"}
	seqs := c13Histories(events, depth, func(e string, st map[string]string) (string, bool) {
		f := strings.Split(e, ":")
		cs, ps := st[f[1]], st[peer[f[1]]]
		switch f[0] {
		case "setup":
			return "up", cs != "up" && ps != "up"
		case "teardown", "teardown0":
			return "", cs == "up" || (cs == "gone" && ps != "up")
		default:
			return "gone", cs == "up"
		}
	})
	si, sn := ev.Shard()
	dl := ev.Deadline(150*time.Second, 30*time.Minute)
	job := 0
	for _, fam := range []string{"4", "46", "6"} {
		var fams []c13FamT
		for _, c := range fam {
			fams = append(fams, c13Fams[string(c)])
		}
		for _, seq := range seqs {
			job++
			if job%sn != si {
				continue
			}
			if time.Now().After(dl) {
				r.NotExhaustive()
				break
			}
			hostNS, err := c13NewNS()
			if err != nil {
				r.NotExhaustive()
				r.Add("histories_skipped_no_namespace", 1)
				r.Set("skipped", "cannot create network namespaces: "+err.Error())
				continue
			}
			pods := map[string]*c13Pod{"A": {name: "A", veth: "calia", ip4: "169.10.0.10", ip6: "fd10::10"}, "B": {name: "B", veth: "calib", ip4: "169.10.0.11", ip6: "fd10::11"}, "C": {name: "C", veth: "calic", ip4: "169.10.0.10", ip6: "fd10::10"}}
			nsOK := true
			for _, p := range pods {
				if p.nsp, err = c13NewNS(); err != nil {
					nsOK = false
				}
			}
			if !nsOK {
				// a history that cannot get its namespaces is skipped and counted, never run half-way
				r.NotExhaustive()
				r.Add("histories_skipped_no_namespace", 1)
				r.Set("skipped", "cannot create network namespaces: "+fmt.Sprint(err))
				c13CloseAll(pods, hostNS)
				continue
			}
			hist := "family " + fam + ": " + strings.Join(seq, " ; ")
			_ = hostNS.Do(func(ns.NetNS) error {
				enis := []netlink.Link{c13AddENI("eni1"), c13AddENI("eni2")}
				d := NewPolicyRoute()
				ctx := context.Background()
				fwd := c13EnableForwarding()
				gws, hostSet := c13Sets(fam)
				for ei, e := range seq {
					f := strings.Split(e, ":")
					p := pods[f[1]]
					rp := map[string]any{"family": fam, "history": seq[:ei+1]}
					switch f[0] {
					case "setup":
						en := 0
						if p.name == "C" {
							en = 1
						}
						cfg := &types.SetupConfig{HostVETHName: p.veth, ContainerIfName: "eth0", ContainerIPNet: p.ipset(fam), GatewayIP: gws, MTU: 1500, ENIIndex: enis[en].Attrs().Index, HostIPSet: hostSet, DefaultRoute: true}
						if err := d.Setup(ctx, cfg, p.nsp); err != nil {
							r.Violate("C13/kernel/setup-error", fmt.Sprintf("history %s: setup(%s): %v", hist, p.name, err), rp)
							continue
						}
						p.up, p.eni, p.leaked = true, en, false
					case "teardown", "teardown0":
						idx := enis[p.eni].Attrs().Index
						if f[0] == "teardown0" {
							idx = 0
						}
						if err := d.Teardown(ctx, &types.TeardownCfg{HostVETHName: p.veth, ContainerIPNet: p.ipset(fam), ENIIndex: idx}, p.nsp); err != nil {
							r.Violate("C13/kernel/teardown-error", fmt.Sprintf("history %s: teardown(%s): %v", hist, p.name, err), rp)
						}
						_ = utils.GenericTearDown(ctx, p.nsp)
						p.up, p.leaked = false, false
						if _, err := netlink.LinkByName(p.veth); err == nil {
							r.Violate("C13/kernel/host-link-left-after-teardown", fmt.Sprintf("history %s: %s still exists", hist, p.veth), rp)
						}
						for _, fm := range fams {
							rules, _ := netlink.RuleList(fm.nl)
							for _, ru := range rules {
								if (ru.Src != nil && ru.Src.IP.Equal(p.addr(fm))) || (ru.Dst != nil && ru.Dst.IP.Equal(p.addr(fm))) {
									r.Violate("C13/kernel/rule-left-after-teardown", fmt.Sprintf("history %s: after teardown(%s): %s", hist, p.name, ru.String()), rp)
								}
							}
							routes, _ := netlink.RouteListFiltered(fm.nl, &netlink.Route{Table: unix.RT_TABLE_UNSPEC}, netlink.RT_FILTER_TABLE)
							for _, rt := range routes {
								if rt.Table != unix.RT_TABLE_LOCAL && rt.Dst != nil && rt.Dst.IP.Equal(p.addr(fm)) {
									r.Violate("C13/kernel/route-left-after-teardown", fmt.Sprintf("history %s: after teardown(%s): %s", hist, p.name, rt.String()), rp)
								}
							}
						}
					case "gone":
						_ = utils.GenericTearDown(ctx, p.nsp)
						p.up, p.leaked = false, true
					}
					// lookups for every pod that is up
					for _, name := range []string{"A", "B", "C"} {
						q := pods[name]
						if !q.up {
							continue
						}
						hv, err := netlink.LinkByName(q.veth)
						if err != nil {
							r.Violate("C13/kernel/host-link-missing", fmt.Sprintf("history %s: pod %s is up but %s is gone", hist, q.name, q.veth), rp)
							continue
						}
						wantIdx := enis[q.eni].Attrs().Index
						for _, fm := range fams {
							qip := q.addr(fm)
							to, err := netlink.RouteGet(qip)
							if err != nil || len(to) == 0 || to[0].LinkIndex != hv.Attrs().Index {
								r.Violate("C13/kernel/to-pod-traffic-not-delivered-to-pod-link", fmt.Sprintf("history %s: route get %s -> %v (%v), pod %s's host link is %s (index %d)", hist, qip, to, err, q.name, q.veth, hv.Attrs().Index), rp)
							}
							fr := c13KernelFIB(fm).lookup(qip, fm.ext)
							if fr == nil || fr.LinkIndex != wantIdx || !fr.Gw.Equal(fm.gw) {
								r.Violate("C13/kernel/from-pod-traffic-not-via-owning-eni", fmt.Sprintf("history %s: the kernel's rules and routes send %s from %s to %v, the address was last set up on %s (index %d) via %s", hist, fm.ext, qip, fr, enis[q.eni].Attrs().Name, wantIdx, fm.gw), rp)
							}
							if fwd {
								from, err := netlink.RouteGetWithOptions(fm.ext, &netlink.RouteGetOptions{SrcAddr: qip, Iif: q.veth})
								if err != nil || len(from) == 0 || from[0].LinkIndex != wantIdx || !from[0].Gw.Equal(fm.gw) {
									r.Violate("C13/kernel/from-pod-traffic-not-via-owning-eni", fmt.Sprintf("history %s: route get %s from %s iif %s -> %v (%v), the address was last set up on %s (index %d) via %s", hist, fm.ext, qip, q.veth, from, err, enis[q.eni].Attrs().Name, wantIdx, fm.gw), rp)
								}
								r.Add("kernel_forward_lookups", 1)
							}
							rules, _ := netlink.RuleListFiltered(fm.nl, &netlink.Rule{Priority: fromContainerPriority, Src: &net.IPNet{IP: qip, Mask: net.CIDRMask(fm.bits, fm.bits)}}, netlink.RT_FILTER_SRC|netlink.RT_FILTER_PRIORITY)
							if len(rules) != 1 {
								var rs []string
								for _, ru := range rules {
									rs = append(rs, ru.String())
								}
								r.Violate("C13/kernel/from-pod-rule-count", fmt.Sprintf("history %s: %d from-pod rules for %s: %v", hist, len(rules), qip, rs), rp)
							}
						}
						_ = q.nsp.Do(func(ns.NetNS) error {
							for _, fm := range c13Fams {
								want := 0
								if strings.Contains(fam, fm.name) {
									want = 1
								}
								if n := c13DefaultRoutes(fm); n != want {
									r.Violate("C13/kernel/pod-default-route-count", fmt.Sprintf("history %s: pod %s has %d IPv%s default routes, want %d", hist, q.name, n, fm.name, want), rp)
								}
							}
							if !strings.Contains(fam, "6") {
								if l, err := netlink.LinkByName("eth0"); err == nil {
									as, _ := netlink.AddrList(l, netlink.FAMILY_V6)
									for _, a := range as {
										if !a.IP.IsLinkLocalUnicast() {
											r.Violate("C13/kernel/disabled-family-configured", fmt.Sprintf("history %s: pod %s has %s although IPv6 is disabled", hist, q.name, a.IPNet), rp)
										}
									}
								}
							}
							return nil
						})
					}
				}
				return nil
			})
			c13CloseAll(pods, hostNS)
			r.Case(fmt.Sprintf("%d/%s", len(seq), hist), map[string]any{"family": fam, "history": seq})
			r.Traces(1)
			r.Transitions(int64(len(seq)))
		}
	}
	r.Set("histories_per_family", len(seqs))
}

func TestVerifC13KernelExclusive(t *testing.T) {
	r := ev.New("C13", "kernel-exclusive-eni")
	defer r.Flush()
	depth := 4
	if ev.Thorough() {
		depth = 6
	}
	r.Rule(fmt.Sprintf("REAL ExclusiveENI.Setup and the generic teardown against the running kernel in private network namespaces (the 'ENI' is one end of a veth pair and is moved into the pod), for family in {v4, v6, dual} x MultiNetwork: every event sequence of length <=%d over {setup(A), setup(B), teardown(A), teardown(B)}; after every event, for every pod that is up and every enabled family: inside the pod, the kernel sends external traffic out of the ENI via the gateway and service traffic out of the helper veth; exactly one default route per enabled family in the main table and none for a disabled one; in the host namespace the kernel delivers traffic for the pod's address to the pod's helper veth; after teardown no link, route or rule of the pod is left in the host namespace and the other pod is untouched", depth))
	if os.Geteuid() != 0 {
		r.NotExhaustive()
		r.Set("skipped", "not root")
		return
	}
	runtime.LockOSThread()
	defer runtime.UnlockOSThread()
	seqs := c13Histories([]string{"setup:A", "setup:B", "teardown:A", "teardown:B"}, depth, func(e string, st map[string]string) (string, bool) {
		f := strings.Split(e, ":")
		if f[0] == "setup" {
			return "up", st[f[1]] != "up"
		}
		return "", st[f[1]] == "up"
	})
	si, sn := ev.Shard()
	dl := ev.Deadline(150*time.Second, 30*time.Minute)
	job := 0
	svc4 := &net.IPNet{IP: net.ParseIP("172.16.0.0").To4(), Mask: net.CIDRMask(16, 32)}
	svc6 := &net.IPNet{IP: net.ParseIP("fd99::"), Mask: net.CIDRMask(112, 128)}
	for _, fam := range []string{"4", "46", "6"} {
		var fams []c13FamT
		for _, c := range fam {
			fams = append(fams, c13Fams[string(c)])
		}
		for _, multi := range []bool{false, true} {
			for _, seq := range seqs {
				job++
				if job%sn != si {
					continue
				}
				if time.Now().After(dl) {
					r.NotExhaustive()
					break
				}
				hostNS, err := c13NewNS()
				if err != nil {
					r.NotExhaustive()
					r.Add("histories_skipped_no_namespace", 1)
					r.Set("skipped", "cannot create network namespaces: "+err.Error())
					continue
				}
				pods := map[string]*c13Pod{"A": {name: "A", veth: "calia", ip4: "169.10.0.10", ip6: "fd10::10"}, "B": {name: "B", veth: "calib", ip4: "169.10.0.11", ip6: "fd10::11"}}
				nsOK := true
				for _, p := range pods {
					if p.nsp, err = c13NewNS(); err != nil {
						nsOK = false
					}
				}
				if !nsOK {
					r.NotExhaustive()
					r.Add("histories_skipped_no_namespace", 1)
					r.Set("skipped", "cannot create network namespaces: "+fmt.Sprint(err))
					c13CloseAll(pods, hostNS)
					continue
				}
				hist := fmt.Sprintf("family %s multi=%v: %s", fam, multi, strings.Join(seq, " ; "))
				_ = hostNS.Do(func(ns.NetNS) error {
					d := NewExclusiveENIDriver()
					ctx := context.Background()
					gws, hostSet := c13Sets(fam)
					svc := &terwayTypes.IPNetSet{}
					if strings.Contains(fam, "4") {
						svc.IPv4 = svc4
					}
					if strings.Contains(fam, "6") {
						svc.IPv6 = svc6
					}
					gen := 0
					for ei, e := range seq {
						f := strings.Split(e, ":")
						p := pods[f[1]]
						rp := map[string]any{"family": fam, "multi": multi, "history": seq[:ei+1]}
						switch f[0] {
						case "setup":
							gen++
							eni := c13AddENI(fmt.Sprintf("eni%s%d", strings.ToLower(p.name), gen))
							cfg := &types.SetupConfig{HostVETHName: p.veth, ContainerIfName: "eth0", ContainerIPNet: p.ipset(fam), GatewayIP: gws, MTU: 1500, ENIIndex: eni.Attrs().Index, HostIPSet: hostSet, ServiceCIDR: svc, DefaultRoute: true, MultiNetwork: multi}
							if err := d.Setup(ctx, cfg, p.nsp); err != nil {
								r.Violate("C13/kernel-exclusive/setup-error", fmt.Sprintf("history %s: setup(%s): %v", hist, p.name, err), rp)
								continue
							}
							p.up = true
						case "teardown":
							if err := utils.GenericTearDown(ctx, p.nsp); err != nil {
								r.Violate("C13/kernel-exclusive/teardown-error", fmt.Sprintf("history %s: teardown(%s): %v", hist, p.name, err), rp)
							}
							p.up = false
							if _, err := netlink.LinkByName(p.veth); err == nil {
								r.Violate("C13/kernel-exclusive/host-link-left-after-teardown", fmt.Sprintf("history %s: %s still exists", hist, p.veth), rp)
							}
							for _, fm := range fams {
								routes, _ := netlink.RouteListFiltered(fm.nl, &netlink.Route{Table: unix.RT_TABLE_UNSPEC}, netlink.RT_FILTER_TABLE)
								for _, rt := range routes {
									if rt.Table != unix.RT_TABLE_LOCAL && rt.Dst != nil && rt.Dst.IP.Equal(p.addr(fm)) {
										r.Violate("C13/kernel-exclusive/route-left-after-teardown", fmt.Sprintf("history %s: after teardown(%s): %s", hist, p.name, rt.String()), rp)
									}
								}
								rules, _ := netlink.RuleList(fm.nl)
								for _, ru := range rules {
									if (ru.Src != nil && ru.Src.IP.Equal(p.addr(fm))) || (ru.Dst != nil && ru.Dst.IP.Equal(p.addr(fm))) {
										r.Violate("C13/kernel-exclusive/rule-left-after-teardown", fmt.Sprintf("history %s: after teardown(%s): %s", hist, p.name, ru.String()), rp)
									}
								}
							}
						}
						for _, name := range []string{"A", "B"} {
							q := pods[name]
							if !q.up {
								continue
							}
							hv, err := netlink.LinkByName(q.veth)
							if err != nil {
								r.Violate("C13/kernel-exclusive/host-link-missing", fmt.Sprintf("history %s: pod %s is up but %s is gone", hist, q.name, q.veth), rp)
								continue
							}
							for _, fm := range fams {
								to, err := netlink.RouteGet(q.addr(fm))
								if err != nil || len(to) == 0 || to[0].LinkIndex != hv.Attrs().Index {
									r.Violate("C13/kernel-exclusive/to-pod-traffic-not-delivered-to-pod-link", fmt.Sprintf("history %s: host route get %s -> %v (%v), pod %s's host link is %s (index %d)", hist, q.addr(fm), to, err, q.name, q.veth, hv.Attrs().Index), rp)
								}
							}
							_ = q.nsp.Do(func(ns.NetNS) error {
								el, err := netlink.LinkByName("eth0")
								if err != nil {
									r.Violate("C13/kernel-exclusive/eni-not-in-pod", fmt.Sprintf("history %s: pod %s has no eth0: %v", hist, q.name, err), rp)
									return nil
								}
								v1, _ := netlink.LinkByName(defaultVethForENI)
								for _, fm := range c13Fams {
									want := 0
									if strings.Contains(fam, fm.name) {
										want = 1
									}
									if n := c13DefaultRoutes(fm); n != want {
										r.Violate("C13/kernel-exclusive/pod-default-route-count", fmt.Sprintf("history %s: pod %s has %d IPv%s default routes in the main table, want %d", hist, q.name, n, fm.name, want), rp)
									}
								}
								for _, fm := range fams {
									out, err := netlink.RouteGetWithOptions(fm.ext, &netlink.RouteGetOptions{SrcAddr: q.addr(fm)})
									if err != nil || len(out) == 0 || out[0].LinkIndex != el.Attrs().Index || !out[0].Gw.Equal(fm.gw) {
										r.Violate("C13/kernel-exclusive/from-pod-traffic-not-via-owning-eni", fmt.Sprintf("history %s: in pod %s route get %s from %s -> %v (%v), want dev eth0 (index %d) via %s", hist, q.name, fm.ext, q.addr(fm), out, err, el.Attrs().Index, fm.gw), rp)
									}
									sip := net.ParseIP("172.16.0.10")
									if fm.name == "6" {
										sip = net.ParseIP("fd99::10")
									}
									so, err := netlink.RouteGet(sip)
									if v1 == nil || err != nil || len(so) == 0 || so[0].LinkIndex != v1.Attrs().Index {
										r.Violate("C13/kernel-exclusive/service-traffic-not-via-host-veth", fmt.Sprintf("history %s: in pod %s route get %s -> %v (%v), want dev %s", hist, q.name, sip, so, err, defaultVethForENI), rp)
									}
								}
								if !strings.Contains(fam, "6") {
									as, _ := netlink.AddrList(el, netlink.FAMILY_V6)
									for _, a := range as {
										if !a.IP.IsLinkLocalUnicast() {
											r.Violate("C13/kernel-exclusive/disabled-family-configured", fmt.Sprintf("history %s: pod %s has %s although IPv6 is disabled", hist, q.name, a.IPNet), rp)
										}
									}
								}
								if !strings.Contains(fam, "4") {
									as, _ := netlink.AddrList(el, netlink.FAMILY_V4)
									if len(as) > 0 {
										r.Violate("C13/kernel-exclusive/disabled-family-configured", fmt.Sprintf("history %s: pod %s has %v although IPv4 is disabled", hist, q.name, as), rp)
									}
								}
								return nil
							})
						}
					}
					return nil
				})
				c13CloseAll(pods, hostNS)
				r.Case(fmt.Sprintf("%d/%s", len(seq), hist), map[string]any{"family": fam, "multi": multi, "history": seq})
				r.Traces(1)
				r.Transitions(int64(len(seq)))
			}
		}
	}
	r.Set("histories_per_configuration", len(seqs))
}
