//go:build verif

package datapath

import (
	"encoding/binary"
	"fmt"
	"net"
	"net/netip"
	"testing"

	"github.com/AliyunContainerService/terway/internal/verif/ev"
	"github.com/AliyunContainerService/terway/plugin/driver/utils"
	"github.com/vishvananda/netlink"
)

func TestVerifC14DstRule(t *testing.T) {
	r := ev.New("C14", "ipvlan-dst-rule")
	defer r.Flush()
	r.Rule("ipvlan redirect classifier dstIPRule: every IPv4 prefix length x 6 bases; packets = base perturbed in <=2 bits + boundaries; oracle: ((dst ^ value) & mask)==0 at the rule's offset == netip.Prefix.Contains(dst), and the source address never influences it; IPv6 CIDRs must be refused with an error; plus GetRouteTableID injective on 0..2^20")
	bases := []uint32{0, 0xffffffff, 0x0a000001, 0xc0a80164, 0x80000000, 0x00ff00ff}
	for plen := 0; plen <= 32; plen++ {
		for _, base := range bases {
			var a4 [4]byte
			binary.BigEndian.PutUint32(a4[:], base)
			pfx := netip.PrefixFrom(netip.AddrFrom4(a4), plen)
			ipn := &net.IPNet{IP: net.IP(a4[:]), Mask: net.CIDRMask(plen, 32)}
			var rule *redirectRule
			var err error
			if p, v, _ := ev.Guard(func() { rule, err = dstIPRule(3, ipn, 4, netlink.TCA_INGRESS_REDIR) }); p {
				r.Violate("datapath.dstIPRule/panic", fmt.Sprint(v), ipn.String())
				continue
			}
			if err != nil || rule == nil {
				r.Violate("datapath.dstIPRule/v4-refused", fmt.Sprintf("%v: %v", ipn, err), ipn.String())
				continue
			}
			if rule.offset != 16 {
				r.Violate("datapath.dstIPRule/offset", fmt.Sprintf("offset %d, IPv4 destination address is at 16", rule.offset), ipn.String())
			}
			check := func(dst uint32) {
				var pkt [20]byte
				binary.BigEndian.PutUint32(pkt[16:], dst)
				binary.BigEndian.PutUint32(pkt[12:], ^dst)
				if rule.offset < 0 || int(rule.offset)+4 > len(pkt) {
					return
				}
				w := binary.BigEndian.Uint32(pkt[rule.offset:])
				got := (w^rule.value)&rule.mask == 0
				var d4 [4]byte
				binary.BigEndian.PutUint32(d4[:], dst)
				want := pfx.Contains(netip.AddrFrom4(d4))
				if got != want {
					r.Violate(fmt.Sprintf("datapath.dstIPRule/mismatch/plen=%d", plen), fmt.Sprintf("cidr %v dst %v: match=%v in CIDR=%v", ipn, netip.AddrFrom4(d4), got, want), map[string]any{"cidr": ipn.String(), "dst": netip.AddrFrom4(d4).String()})
				}
				r.Case(fmt.Sprintf("%d/%08x/%v", plen, base, got), map[string]any{"cidr": ipn.String(), "dst": netip.AddrFrom4(d4).String(), "match": got})
			}
			check(base)
			for i := 0; i < 32; i++ {
				check(base ^ 1<<i)
				for j := i + 1; j < 32; j++ {
					check(base ^ 1<<i ^ 1<<j)
				}
			}
			lo := binary.BigEndian.Uint32(pfx.Masked().Addr().AsSlice())
			var span uint32
			if plen < 32 {
				span = ^uint32(0) >> plen
			}
			for _, s := range []uint32{lo, lo + span, lo - 1, lo + span + 1} {
				check(s)
			}
		}
	}
	for _, c := range []string{"fd00::1/128", "2408::/64", "::/0"} {
		_, ipn, _ := net.ParseCIDR(c)
		var rule *redirectRule
		var err error
		if p, v, _ := ev.Guard(func() { rule, err = dstIPRule(3, ipn, 4, netlink.TCA_INGRESS_REDIR) }); p {
			r.Violate("datapath.dstIPRule/panic", fmt.Sprint(v), c)
		} else if err == nil {
			r.Violate("datapath.dstIPRule/v6-accepted", fmt.Sprintf("%s accepted: %+v", c, rule), c)
		}
		r.Case("v6/"+c, nil)
	}
	seen := make(map[int]int, 1<<20)
	for i := 0; i <= 1<<20; i++ {
		id := utils.GetRouteTableID(i)
		if j, ok := seen[id]; ok {
			r.Violate("utils.GetRouteTableID/collision", fmt.Sprintf("links %d and %d share table %d", i, j, id), []int{i, j})
		}
		if id == 253 || id == 254 || id == 255 || id == 0 {
			r.Violate("utils.GetRouteTableID/reserved", fmt.Sprintf("link %d maps to reserved table %d", i, id), i)
		}
		seen[id] = i
		r.Eval()
	}
	r.Distinct("tableids")
}
