//go:build verif

package vswitch

import (
	"bytes"
	"context"
	"fmt"
	"os"
	"os/exec"
	"strings"
	"sync"
	"testing"

	"github.com/aliyun/alibaba-cloud-sdk-go/services/vpc"

	"github.com/AliyunContainerService/terway/internal/verif/ev"
)

type raceVPC struct {
	mu    sync.Mutex
	calls int
}

func (v *raceVPC) DescribeVSwitchByID(ctx context.Context, id string) (*vpc.VSwitch, error) {
	v.mu.Lock()
	v.calls++
	v.mu.Unlock()
	zone := "z1"
	if id == "c" {
		zone = "z2"
	}
	return &vpc.VSwitch{VSwitchId: id, ZoneId: zone, AvailableIpAddressCount: int64(5 + len(id)), CidrBlock: "10.0.0.0/24"}, nil
}

// TestVerifC17RaceBody is the free-running body: the same three-thread scenario the explorer drives, on real
// goroutines and real sync primitives, repeated. It only makes sense under -race.
func TestVerifC17RaceBody(t *testing.T) {
	if os.Getenv("VERIF_RACE_CHILD") == "" {
		t.Skip("body of the free-running race pass")
	}
	if os.Getenv("VERIF_RACE_CHILD") == "selftest" {
		// deliberately racy: shows that the detector is armed in this binary
		x := 0
		var wg sync.WaitGroup
		for i := 0; i < 2; i++ {
			wg.Add(1)
			go func() { defer wg.Done(); x++ }()
		}
		wg.Wait()
		_ = x
		return
	}
	for it := 0; it < 300; it++ {
		for _, policy := range []SelectionPolicy{VSwitchSelectionPolicyOrdered, VSwitchSelectionPolicyRandom, VSwitchSelectionPolicyMost} {
			pool, _ := NewSwitchPool(100, "10m")
			cl := &raceVPC{}
			shared := []string{"a", "b", "c", "d"}
			opts := &SelectOptions{VSwitchSelectPolicy: policy}
			var wg sync.WaitGroup
			wg.Add(3)
			go func() { defer wg.Done(); _, _ = pool.GetOne(context.Background(), cl, "z1", shared, opts) }()
			go func() {
				defer wg.Done()
				if s, err := pool.GetOne(context.Background(), cl, "z1", shared, opts); err == nil && s != nil {
					pool.Block(s.ID)
				}
			}()
			go func() { defer wg.Done(); pool.Block("a"); _, _ = pool.GetByID(context.Background(), cl, "b") }()
			wg.Wait()
		}
	}
}

// verifRacePass re-executes this test binary (built with -race) on the body test and reports what the detector said.
func verifRacePass(r *ev.Rec, body string) {
	st := exec.Command(os.Args[0], "-test.run", "^"+body+"$", "-test.count", "1")
	st.Env = append(os.Environ(), "VERIF_RACE_CHILD=selftest", "GORACE=halt_on_error=0")
	so, _ := st.CombinedOutput()
	if !strings.Contains(string(so), "WARNING: DATA RACE") {
		r.Assume("free-running -race pass: the detector is NOT armed in this binary (a deliberately racy self-test went unreported); nothing is concluded about unsynchronised accesses")
		r.Set("free_running_race_pass", map[string]any{"body": body, "detector_armed": false})
		r.Case("race-pass-unarmed", nil)
		return
	}
	cmd := exec.Command(os.Args[0], "-test.run", "^"+body+"$", "-test.count", "1")
	cmd.Env = append(os.Environ(), "VERIF_RACE_CHILD=1", "GORACE=halt_on_error=0")
	var out bytes.Buffer
	cmd.Stdout, cmd.Stderr = &out, &out
	err := cmd.Run()
	races := strings.Count(out.String(), "WARNING: DATA RACE")
	r.Set("free_running_race_pass", map[string]any{"body": body, "detector_armed": true, "data_races_reported": races, "exit_error": fmt.Sprint(err)})
	switch {
	case races > 0:
		// not a verdict on the property: it says the explorer's assumption (all shared accesses are ordered by the
		// synchronisation operations it schedules) does not hold for this code
		r.Assume("NOT MET: the free-running -race pass reported " + fmt.Sprint(races) + " data race(s); interleavings finer than synchronisation operations exist that the explorer does not enumerate")
		fmt.Println("RACE-OBSERVED in", body)
		fmt.Println(out.String())
	case err != nil:
		r.Assume("free-running -race pass did not complete: " + err.Error())
		fmt.Println(out.String())
	default:
		r.Assume("met in a sampled free-running -race pass (" + body + "): no unsynchronised access to shared state observed, so scheduling at synchronisation operations is sufficient")
	}
	r.Case("race-pass", map[string]any{"body": body, "races": races})
}

func TestVerifC17Race(t *testing.T) {
	r := ev.New("C17", "race-pass")
	defer r.Flush()
	r.Rule("auxiliary, sampled (NOT part of the exhaustive verdict): the explorer's three-thread scenario GetOne || GetOne;Block || Block;GetByID on one shared candidate slice x 3 policies x 300 repetitions on real goroutines under the Go race detector; outcome is recorded as an assumption of the model-checking parts")
	r.NotExhaustive()
	verifRacePass(r, "TestVerifC17RaceBody")
}
