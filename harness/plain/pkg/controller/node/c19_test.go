//go:build verif

package node

import (
	"context"
	"fmt"
	"strconv"
	"testing"

	"github.com/aliyun/alibaba-cloud-sdk-go/services/ecs"
	corev1 "k8s.io/api/core/v1"
	metav1 "k8s.io/apimachinery/pkg/apis/meta/v1"
	k8stypes "k8s.io/apimachinery/pkg/types"
	"k8s.io/client-go/tools/record"
	"sigs.k8s.io/controller-runtime/pkg/client"
	"sigs.k8s.io/controller-runtime/pkg/client/fake"
	"sigs.k8s.io/controller-runtime/pkg/reconcile"

	"github.com/AliyunContainerService/terway/deviceplugin"
	"github.com/AliyunContainerService/terway/internal/verif/ev"
	aliyunClient "github.com/AliyunContainerService/terway/pkg/aliyun/client"
	networkv1beta1 "github.com/AliyunContainerService/terway/pkg/apis/network.alibabacloud.com/v1beta1"
	register "github.com/AliyunContainerService/terway/pkg/controller"
	multiipnode "github.com/AliyunContainerService/terway/pkg/controller/multi-ip/node"
	"github.com/AliyunContainerService/terway/pkg/controller/status"
	"github.com/AliyunContainerService/terway/pkg/eni"
	"github.com/AliyunContainerService/terway/types"
)

type c19Cloud struct {
	register.Interface
	types map[string]ecs.InstanceType
}

func (c *c19Cloud) DescribeInstanceTypes(ctx context.Context, ts []string) ([]ecs.InstanceType, error) {
	var out []ecs.InstanceType
	for _, t := range ts {
		if it, ok := c.types[t]; ok {
			out = append(out, it)
		}
	}
	return out, nil
}

// TestVerifC19Advertised composes the three real steps that lead to what the scheduler sees for a node:
// controller (limits -> NodeCap), daemon (NodeCap + eni-config -> flavor / pool), controller again (flavor -> node
// annotation and extended resources).
func TestVerifC19Advertised(t *testing.T) {
	r := ev.New("C19", "node-advertisement")
	defer r.Flush()
	r.Rule("every instance-type description (EniQuantity 1..4, addresses per interface 1..3 (thorough: 1..8, 1..5), IPv6 {0, same}, EniTotalQuantity {q, q+5}, trunk support y/n, ERI 0..1) x eni-config (ip_stack v4/dual, trunking, RDMA) x node mode (shared / exclusive-ENI label) x trunk interface {absent, InUse in the Node CR status}; the REAL controller ReconcileNode.Reconcile creates the Node CR from the limits, the REAL daemon-side nodeReconcile fills flavor and pool, the REAL controller reconcile then writes the max-available-ip annotation and the aliyun/eni / aliyun/member-eni extended resources on a fake API server; then the instance is resized in place to a smaller type (one interface less, one address per interface, no IPv6 / trunk / RDMA) and the three steps run again; oracle, before and after the resize, from the CURRENT description alone: advertised addresses <= (EniQuantity-1) x addresses per interface, exclusive interfaces <= EniQuantity-1, member interfaces <= EniTotalQuantity-EniQuantity and none without trunk support or without a trunk interface, nothing negative")
	n := 0
	maxQ, maxPer := 4, 3
	if ev.Thorough() {
		maxQ, maxPer = 8, 5
	}
	for q := 1; q <= maxQ; q++ {
		for per := 1; per <= maxPer; per++ {
			for _, v6 := range []int{0, per} {
				for _, extra := range []int{0, 5} {
					for _, trunkOK := range []bool{false, true} {
						for eri := 0; eri <= 1; eri++ {
							for _, stack := range []string{"ipv4", "dual"} {
								for _, trunk := range []bool{false, true} {
									for _, excl := range []bool{false, true} {
										for _, trunkENI := range []bool{false, true} {
											n++
											it := fmt.Sprintf("ecs.t%d", n) // the limit provider caches by type name
											cloud := &c19Cloud{types: map[string]ecs.InstanceType{it: {InstanceTypeId: it, EniQuantity: q, EniPrivateIpAddressQuantity: per, EniIpv6AddressQuantity: v6, EniTotalQuantity: q + extra, EniTrunkSupported: trunkOK, EriQuantity: eri}}}
											labels := map[string]string{corev1.LabelTopologyRegion: "r1", corev1.LabelInstanceTypeStable: it, corev1.LabelTopologyZone: "z1"}
											if excl {
												labels[types.ExclusiveENIModeLabel] = string(types.ExclusiveENIOnly)
											}
											kn := &corev1.Node{ObjectMeta: metav1.ObjectMeta{Name: "n1", Labels: labels, UID: "uid-n1"}, Spec: corev1.NodeSpec{ProviderID: "r1.i-1"}}
											cm := &corev1.ConfigMap{ObjectMeta: metav1.ObjectMeta{Namespace: "kube-system", Name: "eni-config"}, Data: map[string]string{"eni_conf": fmt.Sprintf(`{"vswitches":{"z1":["vsw-1"]},"security_groups":["sg-1"],"ip_stack":%q,"enable_eni_trunking":%v,"enable_erdma":true,"min_pool_size":0,"max_pool_size":5}`, stack, trunk)}}
											c := fake.NewClientBuilder().WithScheme(types.Scheme).WithObjects(kn, cm).WithStatusSubresource(&corev1.Node{}, &networkv1beta1.Node{}).Build()
											rn := &ReconcileNode{client: c, scheme: types.Scheme, aliyun: cloud, record: &record.FakeRecorder{}, nodeStatusCache: status.NewCache[status.NodeStatus]()}
											in := map[string]any{"EniQuantity": q, "EniPrivateIpAddressQuantity": per, "EniIpv6AddressQuantity": v6, "EniTotalQuantity": q + extra, "EniTrunkSupported": trunkOK, "EriQuantity": eri, "ip_stack": stack, "enable_eni_trunking": trunk, "exclusive": excl, "trunk_eni_in_use": trunkENI}
											req := reconcile.Request{NamespacedName: k8stypes.NamespacedName{Name: "n1"}}
											ctx := context.Background()
											step := "controller-1"
											var err error
											if p, pv, st := ev.Guard(func() {
												_, err = rn.Reconcile(ctx, req)
												if err != nil {
													return
												}
												step = "daemon"
												err = eni.VerifNodeReconcile(c, "n1")
												if err != nil {
													return
												}
												if trunkENI {
													cr := &networkv1beta1.Node{}
													if err = c.Get(ctx, client.ObjectKey{Name: "n1"}, cr); err != nil {
														return
													}
													cr.Status.NetworkInterfaces = map[string]*networkv1beta1.NetworkInterface{"eni-t": {ID: "eni-t", NetworkInterfaceType: networkv1beta1.ENITypeTrunk, Status: aliyunClient.ENIStatusInUse}}
													if err = c.Status().Update(ctx, cr); err != nil {
														return
													}
												}
												step = "controller-2"
												_, err = rn.Reconcile(ctx, req)
											}); p {
												r.Violate("C19/advertisement/panic/"+step, fmt.Sprintf("%v: %v\n%s", in, pv, st), in)
												continue
											}
											for len(multiipnode.EventCh) > 0 {
												<-multiipnode.EventCh
											}
											if err != nil {
												r.Add("error in step "+step, 1)
												r.Case("error/"+step, in)
												continue
											}
											judge := func(stage string, q, per, extra int, trunkOK bool) (int, int64, int64) {
												in := map[string]any{"stage": stage, "input": in, "EniQuantity_now": q, "addresses_per_interface_now": per}
												got := &corev1.Node{}
												_ = c.Get(ctx, client.ObjectKey{Name: "n1"}, got)
												cr := &networkv1beta1.Node{}
												_ = c.Get(ctx, client.ObjectKey{Name: "n1"}, cr)
												slots := q - 1
												member := 0
												if trunkOK {
													member = extra
												}
												ips := 0
												if s, ok := got.Annotations[string(types.NormalIPTypeIPs)]; ok {
													ips, err = strconv.Atoi(s)
													if err != nil || ips < 0 {
														r.Violate("C19/advertisement/ip-annotation-malformed", fmt.Sprintf("%v: %q", in, s), in)
													}
												}
												limIPs := slots * per
												if excl {
													limIPs = slots
												}
												if ips > limIPs {
													r.Violate("C19/advertisement/addresses-over-instance-limit", fmt.Sprintf("%v: node annotation advertises %d addresses, the instance type delivers %d (flavor %+v, NodeCap %+v)", in, ips, limIPs, cr.Spec.Flavor, cr.Spec.NodeCap), in)
												}
												eniQ := got.Status.Allocatable[corev1.ResourceName(deviceplugin.ENIResName)]
												memQ := got.Status.Allocatable[corev1.ResourceName(deviceplugin.MemberENIResName)]
												if eniQ.Value() < 0 || memQ.Value() < 0 {
													r.Violate("C19/advertisement/negative-resource", fmt.Sprintf("%v: aliyun/eni=%s aliyun/member-eni=%s", in, eniQ.String(), memQ.String()), in)
												}
												if int(eniQ.Value()) > slots {
													r.Violate("C19/advertisement/exclusive-interfaces-over-instance-limit", fmt.Sprintf("%v: aliyun/eni=%s, attachable secondary interfaces %d", in, eniQ.String(), slots), in)
												}
												if int(memQ.Value()) > member {
													r.Violate("C19/advertisement/member-interfaces-over-instance-limit", fmt.Sprintf("%v: aliyun/member-eni=%s, the instance type delivers %d", in, memQ.String(), member), in)
												}
												if memQ.Value() > 0 && (!trunkENI || !trunk) {
													r.Violate("C19/advertisement/member-interfaces-without-trunk", fmt.Sprintf("%v: aliyun/member-eni=%s", in, memQ.String()), in)
												}
												c2 := cr.Spec.NodeCap
												if c2.Adapters < 0 || c2.IPv4PerAdapter < 0 || c2.IPv6PerAdapter < 0 || c2.MemberAdapterLimit < 0 || c2.EriQuantity < 0 || c2.TotalAdapters < 0 {
													r.Violate("C19/advertisement/negative-nodecap", fmt.Sprintf("%v: %+v", in, c2), in)
												}
												return ips, eniQ.Value(), memQ.Value()
											}
											ips, eniV, memV := judge("registered", q, per, extra, trunkOK)
											// the instance is resized in place to a smaller type (same instance id, zone and region): what is advertised must follow
											if q > 1 {
												small := fmt.Sprintf("ecs.s%d", n)
												cloud.types[small] = ecs.InstanceType{InstanceTypeId: small, EniQuantity: q - 1, EniPrivateIpAddressQuantity: 1, EniIpv6AddressQuantity: 0, EniTotalQuantity: q - 1, EniTrunkSupported: false, EriQuantity: 0}
												var rerr error
												if p, pv, st := ev.Guard(func() {
													cur := &corev1.Node{}
													if rerr = c.Get(ctx, client.ObjectKey{Name: "n1"}, cur); rerr != nil {
														return
													}
													cur.Labels[corev1.LabelInstanceTypeStable] = small
													if rerr = c.Update(ctx, cur); rerr != nil {
														return
													}
													if _, rerr = rn.Reconcile(ctx, req); rerr != nil {
														return
													}
													if rerr = eni.VerifNodeReconcile(c, "n1"); rerr != nil {
														return
													}
													_, rerr = rn.Reconcile(ctx, req)
												}); p {
													r.Violate("C19/advertisement/panic/resize", fmt.Sprintf("%v: %v\n%s", in, pv, st), in)
												} else if rerr == nil {
													judge("resized-to-smaller-type", q-1, 1, 0, false)
												} else {
													r.Add("error in step resize", 1)
												}
												for len(multiipnode.EventCh) > 0 {
													<-multiipnode.EventCh
												}
											}
											r.Add(fmt.Sprintf("advertised ips=%d aliyun/eni=%d aliyun/member-eni=%d exclusive=%v", ips, eniV, memV, excl), 1)
											r.Case(fmt.Sprintf("ips%d/eni%d/mem%d/%v", ips, eniV, memV, excl), in)
										}
									}
								}
							}
						}
					}
				}
			}
		}
	}
}
