//go:build verif

package podeni

import (
	"context"
	"fmt"
	"sort"
	"strings"
	"testing"

	corev1 "k8s.io/api/core/v1"
	metav1 "k8s.io/apimachinery/pkg/apis/meta/v1"
	"k8s.io/apimachinery/pkg/runtime"
	clientgoscheme "k8s.io/client-go/kubernetes/scheme"
	"sigs.k8s.io/controller-runtime/pkg/client/fake"

	"github.com/AliyunContainerService/terway/internal/verif/ev"
	"github.com/AliyunContainerService/terway/pkg/controller/status"
)

// TestVerifC15Numa: the cpuSet annotation (written by whoever may annotate pods) reaches status.RequestNetworkIndex
// through getENIIndex in the attach path of the PodENI controller.
func TestVerifC15Numa(t *testing.T) {
	r := ev.New("C15", "numa-hints")
	defer r.Flush()
	r.Rule("every cpuSet annotation value over {absent, '', non-JSON, JSON of other types, {container:{<key>:x}} with every key string of length <=3 over the alphabet {0,1,2,3,9,-,+,a,space} for one container and every PAIR of keys of length <=2 spread over one or two containers} x nodes with {0 (unknown), 1, 2, 3, 4} network cards x {0,1,3} interfaces already placed, through the REAL ReconcilePodENI.getENIIndex -> podNumaHints -> NodeStatus.RequestNetworkIndex on a fake API server, twice per value (re-request of the same interface); oracle: no panic, the returned card index is nil or one of the node's cards, a node with fewer than two cards always yields nil")
	scheme := runtime.NewScheme()
	_ = clientgoscheme.AddToScheme(scheme)
	alpha := []string{"0", "1", "2", "3", "9", "-", "+", "a", " "}
	var keys3, keys2 []string
	var rec func(p string, n int, out *[]string)
	rec = func(p string, n int, out *[]string) {
		*out = append(*out, p)
		if n == 0 {
			return
		}
		for _, c := range alpha {
			rec(p+c, n-1, out)
		}
	}
	rec("", 3, &keys3)
	rec("", 2, &keys2)
	values := []string{"<absent>", "", "x", "null", "7", `"x"`, "[]", "{}", `{"c":null}`, `{"c":7}`, `{"c":[]}`, `{"c":{}}`, `{"":{"":null}}`, `{"c":{"0":null,"1":null}}`, `{"c":{"99999999999999999999":1}}`, `{"c":{"-0":1}}`, `{"c":{"0x1":1}}`, `{"c":{"1e0":1}}`}
	q := func(s string) string { return strings.ReplaceAll(strings.ReplaceAll(s, `\`, `\\`), `"`, `\"`) }
	for _, k := range keys3 {
		values = append(values, fmt.Sprintf(`{"c":{"%s":"0-3"}}`, q(k)))
	}
	for _, a := range keys2 {
		for _, b := range keys2 {
			if a < b {
				values = append(values, fmt.Sprintf(`{"c":{"%s":1,"%s":1}}`, q(a), q(b)))
			}
			values = append(values, fmt.Sprintf(`{"c":{"%s":1},"d":{"%s":1}}`, q(a), q(b)))
		}
	}
	ctx := context.Background()
	for _, cards := range []int{0, 1, 2, 3, 4} {
		for _, placed := range []int{0, 1, 3} {
			for _, v := range values {
				pod := &corev1.Pod{ObjectMeta: metav1.ObjectMeta{Namespace: "ns", Name: "p", Annotations: map[string]string{}}, Spec: corev1.PodSpec{NodeName: "node-1"}}
				if v != "<absent>" {
					pod.Annotations["cpuSet"] = v
				}
				node := &corev1.Node{ObjectMeta: metav1.ObjectMeta{Name: "node-1"}}
				m := &ReconcilePodENI{client: fake.NewClientBuilder().WithScheme(scheme).WithObjects(pod, node).Build(), nodeStatusCache: status.NewCache[status.NodeStatus]()}
				if cards > 0 {
					ns := status.NewNodeStatus(cards)
					for i := 0; i < placed; i++ {
						ns.RequestNetworkIndex(fmt.Sprintf("eni-old%d", i), nil, nil)
					}
					m.nodeStatusCache.LoadOrStore("node-1", ns)
				}
				in := fmt.Sprintf("cpuSet=%s cards=%d placed=%d", v, cards, placed)
				var got [2]*int
				if p, pv, st := ev.Guard(func() {
					got[0] = m.getENIIndex(ctx, "ns", "p", "eni-new")
					got[1] = m.getENIIndex(ctx, "ns", "p", "eni-new")
				}); p {
					cls := "other"
					hints := podNumaHints(pod.Annotations)
					sort.Ints(hints)
					if len(hints) == 1 && hints[0] >= 2 {
						cls = "single-hint>=2"
					}
					r.Violate("C15/numa-hint-panic/"+cls, fmt.Sprintf("%s: %v\n%s", in, pv, st), map[string]any{"cpuSet": v, "cards": cards, "placed": placed})
					continue
				}
				out := "nil"
				for _, g := range got {
					if g == nil {
						continue
					}
					out = "card"
					if *g < 0 || *g >= cards {
						r.Violate("C15/numa-hint-card-out-of-range", fmt.Sprintf("%s: card index %d", in, *g), map[string]any{"cpuSet": v, "cards": cards})
					}
					if cards < 2 {
						r.Violate("C15/numa-hint-card-on-single-card-node", fmt.Sprintf("%s: card index %d", in, *g), map[string]any{"cpuSet": v, "cards": cards})
					}
				}
				hints := podNumaHints(pod.Annotations)
				hc := "none"
				if len(hints) == 1 {
					hc = fmt.Sprintf("one(%d)", min(max(hints[0], -1), 4))
				} else if len(hints) > 1 {
					hc = "many"
				}
				r.Case(fmt.Sprintf("cards%d/placed%d/hints-%s/%s", cards, placed, hc, out), in)
			}
		}
	}
}
