//go:build verif

package webhook

import (
	"context"
	"encoding/json"
	"fmt"
	"sort"
	"strings"
	"testing"

	jsonpatch "github.com/evanphx/json-patch"
	admissionv1 "k8s.io/api/admission/v1"
	corev1 "k8s.io/api/core/v1"
	metav1 "k8s.io/apimachinery/pkg/apis/meta/v1"
	"k8s.io/apimachinery/pkg/runtime"
	"sigs.k8s.io/controller-runtime/pkg/client"
	"sigs.k8s.io/controller-runtime/pkg/client/fake"
	"sigs.k8s.io/controller-runtime/pkg/webhook"

	"github.com/AliyunContainerService/terway/deviceplugin"
	"github.com/AliyunContainerService/terway/internal/verif/ev"
	"github.com/AliyunContainerService/terway/pkg/apis/network.alibabacloud.com/v1beta1"
	"github.com/AliyunContainerService/terway/types"
	"github.com/AliyunContainerService/terway/types/controlplane"
)

type c18PN struct {
	name  string
	ready bool
	zones []string
	sel   string // "" | "pod" | "ns"
	fixed bool
}

func c18World(pns []c18PN, prevZone string, eniConfig bool) client.Client {
	objs := []client.Object{&corev1.Namespace{ObjectMeta: metav1.ObjectMeta{Name: "ns", Labels: map[string]string{"team": "a"}}}}
	for _, p := range pns {
		pn := &v1beta1.PodNetworking{ObjectMeta: metav1.ObjectMeta{Name: p.name}, Spec: v1beta1.PodNetworkingSpec{SecurityGroupIDs: []string{"sg-1"}, VSwitchOptions: []string{"vsw-" + p.name}}}
		if p.fixed {
			pn.Spec.AllocationType = v1beta1.AllocationType{Type: v1beta1.IPAllocTypeFixed, ReleaseStrategy: v1beta1.ReleaseStrategyTTL, ReleaseAfter: "5m0s"}
		} else {
			pn.Spec.AllocationType = v1beta1.AllocationType{Type: v1beta1.IPAllocTypeElastic}
		}
		switch p.sel {
		case "pod":
			pn.Spec.Selector.PodSelector = &metav1.LabelSelector{MatchLabels: map[string]string{"app": "x"}}
		case "ns":
			pn.Spec.Selector.NamespaceSelector = &metav1.LabelSelector{MatchLabels: map[string]string{"team": "a"}}
		case "both":
			pn.Spec.Selector.PodSelector = &metav1.LabelSelector{MatchLabels: map[string]string{"app": "x"}}
			pn.Spec.Selector.NamespaceSelector = &metav1.LabelSelector{MatchLabels: map[string]string{"team": "a"}}
		case "both-other-ns":
			pn.Spec.Selector.PodSelector = &metav1.LabelSelector{MatchLabels: map[string]string{"app": "x"}}
			pn.Spec.Selector.NamespaceSelector = &metav1.LabelSelector{MatchLabels: map[string]string{"team": "b"}}
		case "other-ns":
			pn.Spec.Selector.NamespaceSelector = &metav1.LabelSelector{MatchLabels: map[string]string{"team": "b"}}
		}
		if p.ready {
			pn.Status.Status = v1beta1.NetworkingStatusReady
		}
		for _, z := range p.zones {
			pn.Status.VSwitches = append(pn.Status.VSwitches, v1beta1.VSwitch{ID: "vsw-" + z, Zone: z})
		}
		objs = append(objs, pn)
	}
	if prevZone != "" {
		objs = append(objs, &v1beta1.PodENI{ObjectMeta: metav1.ObjectMeta{Namespace: "ns", Name: "web-0"}, Spec: v1beta1.PodENISpec{Zone: prevZone, Allocations: []v1beta1.Allocation{{IPv4: "10.0.0.9"}}}})
	}
	if eniConfig {
		objs = append(objs, &corev1.ConfigMap{ObjectMeta: metav1.ObjectMeta{Namespace: "kube-system", Name: "eni-config"}, Data: map[string]string{"eni_conf": `{"vswitches":{"z1":["vsw-default"]},"security_groups":["sg-default"]}`}})
	}
	return fake.NewClientBuilder().WithScheme(types.Scheme).WithObjects(objs...).Build()
}

var c18CurPNs []c18PN

func c18Sels() []string {
	var out []string
	for _, p := range c18CurPNs {
		if p.sel != "" {
			out = append(out, p.name+":"+p.sel)
		}
	}
	return out
}

func c18SGs(n int) string {
	var s []string
	for i := 0; i < n; i++ {
		s = append(s, fmt.Sprintf(`"sg-%d"`, i))
	}
	return "[" + strings.Join(s, ",") + "]"
}

func c18Net(ifn, vsw, sgs, alloc string) string {
	s := fmt.Sprintf(`{"interface":%q`, ifn)
	if vsw != "" {
		s += `,"vSwitchOptions":` + vsw
	}
	if sgs != "" {
		s += `,"securityGroupIDs":` + sgs
	}
	if alloc != "" {
		s += `,"allocationType":` + alloc
	}
	return s + "}"
}

func TestVerifC18(t *testing.T) {
	r := ev.New("C18", "admission")
	defer r.Flush()
	r.Rule("real podWebhook on a fake API server: pods over {hostNetwork, ignored label, containers 0/1/2, owner none/StatefulSet/ReplicaSet/DaemonSet, pod-networks annotation in 14 shapes (complete, second interface incomplete, first incomplete, duplicate / empty / 5- and 6-char interface names, 10 / 11 security groups, fixed allocation, invalid JSON), pod-networks-request in 6 shapes (1-3 networks with overlapping / disjoint zones, not ready, with selector, unknown), pod-networking annotation, pod-eni flag, labels} x PodNetworking sets (incl. definitions whose selector names pod AND namespace labels, matching or not) x previous PodENI zone x cluster config {trunk, IPAM type, resource injection, eni-config present}; the JSON patch is APPLIED to the input pod and parsed back; oracle = reference predicate of the statement (untouched classes unchanged; conflicts / fixed-IP-without-stable-name denied; every patched pod complete: pod-eni flag, parseable list, unique 1-5 char names, vSwitches, <=10 security groups, allocation type, device request == number of networks, zone affinity within the zones common to all requested networks)")
	pnsAll := []c18PN{{"pa", true, []string{"z1", "z2"}, "", false}, {"pb", true, []string{"z2", "z3"}, "", false}, {"pc", true, []string{"z4"}, "", false}, {"pnr", false, []string{"z1"}, "", false}, {"psel", true, []string{"z1"}, "pod", false}, {"pfix", true, []string{"z1"}, "ns", true}}
	pnSets := [][]c18PN{nil, pnsAll[:4], pnsAll,
		// selectors that name BOTH pod and namespace labels / another namespace: a pod is selected only if every given selector matches
		append(append([]c18PN{}, pnsAll[:4]...), c18PN{"pboth", true, []string{"z1"}, "both-other-ns", false}, c18PN{"pons", true, []string{"z1"}, "other-ns", false}),
		append(append([]c18PN{}, pnsAll[:4]...), c18PN{"pboth", true, []string{"z1"}, "both", false})}
	full := c18Net("eth0", `["vsw-1"]`, `["sg-1"]`, "")
	netAnnos := []string{"",
		`{"podNetworks":[` + full + `]}`,
		`{"podNetworks":[` + full + `,` + c18Net("eth1", `["vsw-2"]`, `["sg-1"]`, "") + `]}`,
		`{"podNetworks":[` + full + `,` + c18Net("eth1", "", `["sg-1"]`, "") + `]}`,
		`{"podNetworks":[` + full + `,` + c18Net("eth1", `["vsw-2"]`, "", "") + `]}`,
		`{"podNetworks":[` + c18Net("eth0", "", "", "") + `]}`,
		`{"podNetworks":[` + full + `,` + c18Net("eth0", `["vsw-2"]`, `["sg-1"]`, "") + `]}`,
		`{"podNetworks":[` + c18Net("", `["vsw-1"]`, `["sg-1"]`, "") + `]}`,
		`{"podNetworks":[` + c18Net("eth12", `["vsw-1"]`, `["sg-1"]`, "") + `]}`,
		`{"podNetworks":[` + c18Net("eth123", `["vsw-1"]`, `["sg-1"]`, "") + `]}`,
		`{"podNetworks":[` + c18Net("eth0", `["vsw-1"]`, c18SGs(10), "") + `]}`,
		`{"podNetworks":[` + c18Net("eth0", `["vsw-1"]`, c18SGs(11), "") + `]}`,
		`{"podNetworks":[` + c18Net("eth0", `["vsw-1"]`, `["sg-1"]`, `{"type":"Fixed","releaseStrategy":"TTL","releaseAfter":"5m0s"}`) + `]}`,
		`{"podNetworks":[`,
		`{"podNetworks":[]}`,
	}
	reqAnnos := []string{"", `[{"network":"pa"}]`, `[{"network":"pa","interfaceName":"eth0"},{"network":"pb","interfaceName":"eth1"}]`,
		`[{"network":"pa","interfaceName":"eth0"},{"network":"pc","interfaceName":"eth1"},{"network":"pb","interfaceName":"eth2"}]`,
		`[{"network":"pnr"}]`, `[{"network":"psel"}]`, `[{"network":"nope"}]`, `[{"network":"pa"},{"network":"pb"}]`}
	owners := []string{"", "StatefulSet", "ReplicaSet", "DaemonSet"}
	tr, fa := true, false
	_ = fa
	for _, pns := range pnSets {
		zonesOf := map[string][]string{}
		for _, p := range pns {
			zonesOf[p.name] = p.zones
		}
		c18CurPNs = pns
		for _, prevZone := range []string{"", "z9"} {
			for _, eniCfg := range []bool{true, false} {
				cl := c18World(pns, prevZone, eniCfg)
				for _, trunk := range []bool{true, false} {
					for _, ipam := range []string{"default", "crd"} {
						for _, inject := range []bool{true, false} {
							trunk, inject := trunk, inject
							cfg := &controlplane.Config{EnableTrunk: &trunk, IPAMType: ipam, EnableWebhookInjectResource: &inject}
							_ = tr
							for _, netA := range netAnnos {
								for _, reqA := range reqAnnos {
									if !ev.Thorough() && netA != "" && reqA != "" && (netA != netAnnos[1] || reqA != reqAnnos[1]) {
										continue // quick: one representative of the conflicting pair; thorough: every pair
									}
									for _, owner := range owners {
										for _, variant := range []string{"plain", "hostnet", "ignored", "nocontainers", "two-containers", "podeni", "labelled", "pnanno"} {
											if !ev.Thorough() && variant != "plain" && variant != "podeni" && variant != "labelled" && (owner != "" || netA == netAnnos[3]) && variant != "two-containers" {
												continue // quick thins the variant x owner product; thorough runs all of it
											}
											c18One(r, cl, cfg, zonesOf, netA, reqA, owner, variant, prevZone, eniCfg)
										}
									}
								}
							}
						}
					}
				}
			}
		}
	}
}

func c18One(r *ev.Rec, cl client.Client, cfg *controlplane.Config, zonesOf map[string][]string, netA, reqA, owner, variant, prevZone string, eniCfg bool) {
	pod := &corev1.Pod{TypeMeta: metav1.TypeMeta{Kind: "Pod", APIVersion: "v1"}, ObjectMeta: metav1.ObjectMeta{Namespace: "ns", Name: "web-0", Annotations: map[string]string{}, Labels: map[string]string{}},
		Spec: corev1.PodSpec{Containers: []corev1.Container{{Name: "c", Image: "i"}}}}
	if netA != "" {
		pod.Annotations[types.PodNetworks] = netA
	}
	if reqA != "" {
		pod.Annotations[types.PodNetworksRequest] = reqA
	}
	if owner != "" {
		pod.OwnerReferences = []metav1.OwnerReference{{Kind: owner, Name: "o", APIVersion: "apps/v1", UID: "u"}}
	}
	switch variant {
	case "hostnet":
		pod.Spec.HostNetwork = true
	case "ignored":
		pod.Labels[types.IgnoreByTerway] = "true"
	case "nocontainers":
		pod.Spec.Containers = nil
	case "two-containers":
		pod.Spec.Containers = append(pod.Spec.Containers, corev1.Container{Name: "d", Image: "i"})
	case "podeni":
		pod.Annotations[types.PodENI] = "true"
	case "labelled":
		pod.Labels["app"] = "x"
	case "pnanno":
		pod.Annotations[types.PodNetworking] = "pa"
	}
	raw, _ := json.Marshal(pod)
	in := map[string]any{"pod_networks": netA, "pod_networks_request": reqA, "owner": owner, "variant": variant, "trunk": *cfg.EnableTrunk, "ipam": cfg.IPAMType, "inject": *cfg.EnableWebhookInjectResource, "prev_zone": prevZone, "eni_config": eniCfg, "podnetworkings": len(zonesOf)}
	req := &webhook.AdmissionRequest{AdmissionRequest: admissionv1.AdmissionRequest{Namespace: "ns", Name: "web-0", Object: runtime.RawExtension{Raw: raw}}}
	var resp webhook.AdmissionResponse
	if p, pv, st := ev.Guard(func() { resp = podWebhook(context.Background(), req, cl, cfg) }); p {
		r.Violate("webhook.podWebhook/panic", fmt.Sprintf("%v: %v\n%s", in, pv, st), in)
		return
	}
	patched := len(resp.Patches) > 0
	outcome := "allowed"
	if !resp.Allowed {
		outcome = "denied"
	}
	if patched {
		outcome = "patched"
	}
	nconf := 0
	for _, a := range []string{netA, reqA} {
		if a != "" {
			nconf++
		}
	}
	if variant == "pnanno" {
		nconf++
	}
	untouched := variant == "hostnet" || variant == "ignored" || variant == "nocontainers"
	switch {
	case untouched:
		if !resp.Allowed || patched {
			r.Violate("webhook/out-of-scope-pod-touched/"+variant, fmt.Sprintf("%v: allowed=%v patches=%d", in, resp.Allowed, len(resp.Patches)), in)
		}
	case nconf >= 2:
		if resp.Allowed {
			r.Violate("webhook/conflicting-annotations-admitted", fmt.Sprintf("%v: allowed with %d patches", in, len(resp.Patches)), in)
		}
	}
	// reference selection: a ready definition selects the pod iff every selector it gives matches (pod labels app=x only
	// in the labelled variant; the namespace carries team=a)
	selected := false
	for _, pn := range c18CurPNs {
		if !pn.ready {
			continue
		}
		podOK, nsOK := variant == "labelled", true
		switch pn.sel {
		case "pod":
			selected = selected || podOK
		case "ns":
			selected = selected || nsOK
		case "both":
			selected = selected || (podOK && nsOK)
		case "both-other-ns", "other-ns":
			// the namespace selector asks for team=b: never matches
		}
	}
	if !untouched && nconf == 0 && cfg.IPAMType != "crd" && variant != "podeni" && !selected {
		if !resp.Allowed || patched {
			r.Violate("webhook/unselected-pod-touched", fmt.Sprintf("%v: no ready network definition selects this pod (selectors %v), yet allowed=%v patches=%d", in, c18Sels(), resp.Allowed, len(resp.Patches)), in)
		}
	}
	if !untouched && nconf == 0 && cfg.IPAMType != "crd" && variant != "podeni" && variant != "labelled" && len(zonesOf) <= 4 {
		// matches no network definition, not flagged by the user: unchanged
		if !resp.Allowed || patched {
			r.Violate("webhook/unmatched-pod-touched", fmt.Sprintf("%v: allowed=%v patches=%d", in, resp.Allowed, len(resp.Patches)), in)
		}
	}
	if patched {
		pb, _ := json.Marshal(resp.Patches)
		dp, err := jsonpatch.DecodePatch(pb)
		var out []byte
		if err == nil {
			out, err = dp.Apply(raw)
		}
		after := &corev1.Pod{}
		if err == nil {
			err = json.Unmarshal(out, after)
		}
		if err != nil {
			r.Violate("webhook/patch-does-not-apply", fmt.Sprintf("%v: %v", in, err), in)
			return
		}
		if after.Annotations[types.PodENI] != "true" {
			r.Violate("webhook/patched-without-pod-eni-flag", fmt.Sprintf("%v", in), in)
		}
		nets, err := controlplane.ParsePodNetworksFromAnnotation(after)
		if err != nil || len(nets.PodNetworks) == 0 {
			r.Violate("webhook/patched-network-list-unparseable-or-empty", fmt.Sprintf("%v: %v %q", in, err, after.Annotations[types.PodNetworks]), in)
			return
		}
		seen := map[string]bool{}
		fixed := false
		for i, n := range nets.PodNetworks {
			where := "first"
			if i > 0 {
				where = "other"
			}
			if len(n.Interface) < 1 || len(n.Interface) > 5 {
				r.Violate("webhook/interface-name-length", fmt.Sprintf("%v: entry %d interface %q", in, i, n.Interface), in)
			}
			if seen[n.Interface] {
				r.Violate("webhook/duplicate-interface-name", fmt.Sprintf("%v: %q", in, n.Interface), in)
			}
			seen[n.Interface] = true
			if len(n.VSwitchOptions) == 0 {
				r.Violate("webhook/entry-without-vswitches/"+where, fmt.Sprintf("%v: admitted with entry %d (%s) lacking vSwitches: %s", in, i, n.Interface, after.Annotations[types.PodNetworks]), in)
			}
			if len(n.SecurityGroupIDs) > 10 {
				r.Violate("webhook/more-than-ten-security-groups", fmt.Sprintf("%v: entry %d has %d", in, i, len(n.SecurityGroupIDs)), in)
			}
			if len(n.SecurityGroupIDs) == 0 {
				r.Violate("webhook/entry-without-security-groups/"+where, fmt.Sprintf("%v: admitted with entry %d (%s) lacking security groups", in, i, n.Interface), in)
			}
			if n.AllocationType == nil || n.AllocationType.Type == "" {
				r.Violate("webhook/entry-without-allocation-type", fmt.Sprintf("%v: entry %d", in, i), in)
			} else if n.AllocationType.Type == v1beta1.IPAllocTypeFixed {
				fixed = true
			}
		}
		if fixed && (owner == "ReplicaSet" || owner == "DaemonSet") {
			r.Violate("webhook/fixed-ip-for-pod-without-stable-name", fmt.Sprintf("%v", in), in)
		}
		if *cfg.EnableWebhookInjectResource {
			want := fmt.Sprint(len(nets.PodNetworks))
			got := ""
			for _, rn := range []string{deviceplugin.MemberENIResName, deviceplugin.ENIResName} {
				if q, ok := after.Spec.Containers[0].Resources.Requests[corev1.ResourceName(rn)]; ok {
					got = q.String()
					if l := after.Spec.Containers[0].Resources.Limits[corev1.ResourceName(rn)]; l.String() != got {
						r.Violate("webhook/device-limit-differs-from-request", fmt.Sprintf("%v: request %s limit %s", in, got, l.String()), in)
					}
				}
			}
			if got != want {
				r.Violate("webhook/device-request-count", fmt.Sprintf("%v: %d networks, device request %q", in, len(nets.PodNetworks), got), in)
			}
		}
		// zone affinity within the zones common to all requested networks
		if reqA != "" {
			var reqs []controlplane.PodNetworkRef
			_ = json.Unmarshal([]byte(reqA), &reqs)
			var common map[string]bool
			for _, rq := range reqs {
				z := map[string]bool{}
				for _, x := range zonesOf[rq.Network] {
					z[x] = true
				}
				if common == nil {
					common = z
				} else {
					for k := range common {
						if !z[k] {
							delete(common, k)
						}
					}
				}
			}
			if after.Spec.Affinity != nil && after.Spec.Affinity.NodeAffinity != nil && after.Spec.Affinity.NodeAffinity.RequiredDuringSchedulingIgnoredDuringExecution != nil {
				for _, term := range after.Spec.Affinity.NodeAffinity.RequiredDuringSchedulingIgnoredDuringExecution.NodeSelectorTerms {
					for _, me := range term.MatchExpressions {
						if me.Key != corev1.LabelTopologyZone {
							continue
						}
						for _, v := range me.Values {
							if !common[v] && v != prevZone {
								var cz []string
								for k := range common {
									cz = append(cz, k)
								}
								sort.Strings(cz)
								r.Violate("webhook/zone-affinity-outside-common-zones", fmt.Sprintf("%v: affinity allows zone %s, zones common to all requested networks %v", in, v, cz), in)
							}
						}
					}
				}
			}
		}
	}
	r.Case(fmt.Sprintf("%s/%s/%d/%d/%s/%s", outcome, variant, len(netA), len(reqA), owner, cfg.IPAMType), in)
}
