//go:build verif

package webhook

import (
	"context"
	"encoding/json"
	"fmt"
	"testing"

	admissionv1 "k8s.io/api/admission/v1"
	corev1 "k8s.io/api/core/v1"
	metav1 "k8s.io/apimachinery/pkg/apis/meta/v1"
	"k8s.io/apimachinery/pkg/runtime"
	"sigs.k8s.io/controller-runtime/pkg/webhook"

	"github.com/AliyunContainerService/terway/internal/verif/ev"
	"github.com/AliyunContainerService/terway/types"
	"github.com/AliyunContainerService/terway/types/controlplane"
)

func TestVerifC15Webhook(t *testing.T) {
	r := ev.New("C15", "webhook-annotations")
	defer r.Flush()
	k := 1
	if ev.Thorough() {
		k = 2
	}
	r.Rule(fmt.Sprintf("every document obtained from a complete pod-networks annotation (two interfaces, vSwitches, security groups, fixed allocation, routes, default route) and from a pod-networks-request annotation (two networks with routes) by replacing or removing <=%d nodes of the JSON tree with each of %d alternatives (null, booleans, numbers incl. out-of-range, strings, empty / nested arrays and objects), plus non-JSON texts, through the REAL admission handler podWebhook (fake API server with PodNetworkings and a previous PodENI) for a StatefulSet pod and a bare pod x trunk x IPAM type, and through both annotation parsers; also the pod-eni / pod-networking / ip-reservation annotations over a short-string alphabet; oracle: no panic, the handler answers (allowed, denied or patched)", k, len(ev.JSONAlternatives)+1))
	pnsAll := []c18PN{{"pa", true, []string{"z1", "z2"}, "", false}, {"pb", true, []string{"z2", "z3"}, "", false}, {"pfix", true, []string{"z1"}, "ns", true}}
	cl := c18World(pnsAll, "z1", true)
	netT := `{"podNetworks":[{"interface":"eth0","vSwitchOptions":["vsw-1","vsw-2"],"securityGroupIDs":["sg-1"],"eniOptions":{"eniType":"Default"},"allocationType":{"type":"Fixed","releaseStrategy":"TTL","releaseAfter":"5m0s"},"defaultRoute":true,"extraRoutes":[{"dst":"10.0.0.0/8"}]},{"interface":"eth1","vSwitchOptions":["vsw-2"],"securityGroupIDs":["sg-1","sg-2"],"vSwitchSelectOptions":{"vSwitchSelectionPolicy":"ordered"}}]}`
	reqT := `[{"interfaceName":"eth0","network":"pa","defaultRoute":true,"routes":[{"dst":"10.0.0.0/8"}]},{"interfaceName":"eth1","network":"pfix"}]`
	run := func(key, val, desc string) {
		for _, owner := range []string{"StatefulSet", ""} {
			for _, trunk := range []bool{true, false} {
				for _, ipam := range []string{"default", "crd"} {
					trunk, inject := trunk, true
					cfg := &controlplane.Config{EnableTrunk: &trunk, IPAMType: ipam, EnableWebhookInjectResource: &inject}
					pod := &corev1.Pod{TypeMeta: metav1.TypeMeta{Kind: "Pod", APIVersion: "v1"}, ObjectMeta: metav1.ObjectMeta{Namespace: "ns", Name: "web-0", Annotations: map[string]string{key: val}, Labels: map[string]string{}},
						Spec: corev1.PodSpec{Containers: []corev1.Container{{Name: "c", Image: "i"}}}}
					if owner != "" {
						pod.OwnerReferences = []metav1.OwnerReference{{Kind: owner, Name: "o", APIVersion: "apps/v1", UID: "u"}}
					}
					raw, _ := json.Marshal(pod)
					req := &webhook.AdmissionRequest{AdmissionRequest: admissionv1.AdmissionRequest{Namespace: "ns", Name: "web-0", Object: runtime.RawExtension{Raw: raw}}}
					var resp webhook.AdmissionResponse
					in := map[string]any{"annotation": key, "value": val, "mutation": desc, "owner": owner, "trunk": trunk, "ipam": ipam}
					if p, pv, st := ev.Guard(func() { resp = podWebhook(context.Background(), req, cl, cfg) }); p {
						r.Violate("C15/webhook-panic/"+key, fmt.Sprintf("%v: %v\n%s", in, pv, st), in)
						continue
					}
					out := "allowed"
					if !resp.Allowed {
						out = "denied"
					} else if len(resp.Patches) > 0 {
						out = "patched"
					}
					r.Case(fmt.Sprintf("%s/%s/%v/%s/%s", key, owner, trunk, ipam, out), in)
				}
			}
		}
		pod := &corev1.Pod{ObjectMeta: metav1.ObjectMeta{Annotations: map[string]string{key: val}}}
		if p, pv, st := ev.Guard(func() {
			_, _ = controlplane.ParsePodNetworksFromAnnotation(pod)
			_, _ = controlplane.ParsePodNetworksFromRequest(pod.Annotations)
		}); p {
			r.Violate("C15/annotation-parser-panic/"+key, fmt.Sprintf("%s=%s: %v\n%s", key, val, pv, st), val)
		}
	}
	n := ev.JSONMutations(netT, k, func(m, d string) { run(types.PodNetworks, m, d) })
	n += ev.JSONMutations(reqT, k, func(m, d string) { run(types.PodNetworksRequest, m, d) })
	for _, s := range []string{"", " ", "{", "[", `{"podNetworks":[`, "\x00", "nul", `"`, `{"podNetworks":[{}]}`, `{"podNetworks":[null]}`, `[null]`, `[{}]`, `[[]]`} {
		run(types.PodNetworks, s, "text")
		run(types.PodNetworksRequest, s, "text")
		n += 2
	}
	alpha := []string{"t", "r", "u", "e", "T", "1", "0", "-", " ", "p", "a"}
	var rec func(p string, d int)
	rec = func(p string, d int) {
		for _, key := range []string{types.PodENI, types.PodNetworking, types.PodIPReservation} {
			run(key, p, "string")
			n++
		}
		if d == 0 {
			return
		}
		for _, c := range alpha {
			rec(p+c, d-1)
		}
	}
	rec("", 2)
	r.Set("documents", n)
}
