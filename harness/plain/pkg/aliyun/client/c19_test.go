//go:build verif

package client

import (
	"fmt"
	"testing"

	"github.com/aliyun/alibaba-cloud-sdk-go/services/ecs"

	"github.com/AliyunContainerService/terway/internal/verif/ev"
)

func TestVerifC19Limits(t *testing.T) {
	r := ev.New("C19", "instance-limits")
	defer r.Flush()
	r.Rule("every instance-type description over EniQuantity 0..5 x EniPrivateIpAddressQuantity 0..4 (+ -1) x EniIpv6AddressQuantity 0..4 (+ -1) (thorough: 0..12, -1..12 + 20, 50) x EniTotalQuantity {-1, 0, q-1, q, q+1, q+3, 30} x EniTrunkSupported x EriQuantity 0..2 (+ -1) through the real getInstanceType and the Limits accessors; oracle: nothing negative, member-ENI figures within EniTotal-EniQuantity and zero without trunk support, RDMA figure <= EriQuantity and <= attachable secondary interfaces, multi-IP capacity == secondary slots x addresses per interface, IPv6 reported only when the type has IPv6 addresses")
	maxQ, ip4s, ip6s := 5, []int{-1, 0, 1, 2, 4}, []int{-1, 0, 1, 4}
	if ev.Thorough() {
		// thorough: EniQuantity 0..12, addresses -1..12 and 20, 50
		maxQ = 12
		ip4s, ip6s = nil, nil
		for i := -1; i <= 12; i++ {
			ip4s, ip6s = append(ip4s, i), append(ip6s, i)
		}
		ip4s, ip6s = append(ip4s, 20, 50), append(ip6s, 20, 50)
	}
	for q := 0; q <= maxQ; q++ {
		for _, ip4 := range ip4s {
			for _, ip6 := range ip6s {
				for _, tot := range []int{0, q - 1, q, q + 1, q + 3, 30, -1} {
					for _, trunk := range []bool{false, true} {
						for _, eri := range []int{-1, 0, 1, 2} {
							it := &ecs.InstanceType{InstanceTypeId: "x", EniQuantity: q, EniPrivateIpAddressQuantity: ip4, EniIpv6AddressQuantity: ip6, EniTotalQuantity: tot, EniTrunkSupported: trunk, EriQuantity: eri}
							in := fmt.Sprintf("eni=%d ip4=%d ip6=%d total=%d trunk=%v eri=%d", q, ip4, ip6, tot, trunk, eri)
							var l *Limits
							if p, pv, _ := ev.Guard(func() { l = getInstanceType(it) }); p {
								r.Violate("client.getInstanceType/panic", fmt.Sprintf("%s: %v", in, pv), in)
								continue
							}
							slots := max(q-1, 0)
							chk := func(name string, v, lo, hi int) {
								if v < lo || v > hi {
									cls := "over"
									if v < lo {
										cls = "negative"
									}
									r.Violate("client.Limits/"+name+"/"+cls, fmt.Sprintf("%s: %s = %d, expected within [%d,%d]", in, name, v, lo, hi), in)
								}
							}
							chk("IPv4PerAdapter", l.IPv4PerAdapter, 0, max(ip4, 0))
							chk("IPv6PerAdapter", l.IPv6PerAdapter, 0, max(ip6, 0))
							memberMax := 0
							if trunk {
								memberMax = max(tot-q, 0)
							}
							chk("TrunkPod", l.TrunkPod(), 0, memberMax)
							chk("MaximumTrunkPod", l.MaximumTrunkPod(), 0, max(tot, 0))
							chk("ERDMARes", l.ERDMARes(), 0, min(max(eri, 0), max(slots-1, 0)))
							if q >= 1 {
								chk("MultiIPPod", l.MultiIPPod(), 0, slots*max(ip4, 0))
								chk("ExclusiveENIPod", l.ExclusiveENIPod(), 0, slots)
							}
							if l.SupportIPv6() != (ip6 > 0) {
								r.Violate("client.Limits/SupportIPv6", fmt.Sprintf("%s: SupportIPv6=%v", in, l.SupportIPv6()), in)
							}
							r.Case(fmt.Sprintf("%d/%d/%d/%d/%d/%v", l.Adapters, l.IPv4PerAdapter, l.IPv6PerAdapter, l.TrunkPod(), l.ERDMARes(), l.SupportIPv6()), in)
						}
					}
				}
			}
		}
	}
}
