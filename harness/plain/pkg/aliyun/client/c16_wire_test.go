//go:build verif

package client

import (
	"bytes"
	"context"
	"errors"
	"fmt"
	"io"
	"net/http"
	"net/url"
	"sync"
	"testing"

	"github.com/aliyun/alibaba-cloud-sdk-go/services/ecs"
	"github.com/aliyun/alibaba-cloud-sdk-go/services/eflo"
	"github.com/aliyun/alibaba-cloud-sdk-go/services/vpc"

	"github.com/AliyunContainerService/terway/internal/verif/ev"
)

type wireClients struct {
	e *ecs.Client
	f *eflo.Client
}

func (c *wireClients) ECS() *ecs.Client   { return c.e }
func (c *wireClients) VPC() *vpc.Client   { return nil }
func (c *wireClients) EFLO() *eflo.Client { return c.f }

// wireCloud is the far end of the SDK's HTTP connection: it records the ClientToken of every request and answers with
// the scripted failure.
type wireCloud struct {
	mu     sync.Mutex
	tokens []string
	kind   string
}

func (t *wireCloud) RoundTrip(req *http.Request) (*http.Response, error) {
	values := url.Values{}
	for k, v := range req.URL.Query() {
		values[k] = v
	}
	if req.Body != nil {
		body, _ := io.ReadAll(req.Body)
		if form, err := url.ParseQuery(string(body)); err == nil {
			for k, v := range form {
				values[k] = v
			}
		}
	}
	t.mu.Lock()
	defer t.mu.Unlock()
	t.tokens = append(t.tokens, values.Get("ClientToken"))
	mk := func(code int, body string) (*http.Response, error) {
		return &http.Response{StatusCode: code, Status: fmt.Sprintf("%d", code), Proto: "HTTP/1.1", ProtoMajor: 1, ProtoMinor: 1,
			Header: http.Header{"Content-Type": []string{"application/json"}}, Body: io.NopCloser(bytes.NewBufferString(body)), Request: req}, nil
	}
	switch t.kind {
	case "transport":
		return nil, errors.New("connection reset by peer")
	case "http500":
		return mk(500, `{"Code":"InternalError","Message":"The request processing has failed due to some unknown error.","RequestId":"r-1","HostId":"x"}`)
	case "http400-quota":
		return mk(400, `{"Code":"QuotaExceeded.PrivateIpAddress","Message":"quota","RequestId":"r-1","HostId":"x"}`)
	case "http403-throttle":
		return mk(403, `{"Code":"Throttling","Message":"Request was denied due to request throttling.","RequestId":"r-1","HostId":"x"}`)
	case "business-code":
		return mk(200, `{"Code":1011,"Message":"internal error","RequestId":"r-1","Content":{}}`)
	case "garbled":
		return mk(200, `{"RequestId":`)
	}
	return mk(500, `{}`)
}

func TestVerifC16Wire(t *testing.T) {
	r := ev.New("C16", "tokens-on-the-wire")
	defer r.Flush()
	r.Rule("the REAL API wrappers (ECS CreateNetworkInterface, AssignPrivateIPAddress, AssignIpv6Addresses, AssignPrivateIPAddress2, AssignIpv6Addresses2; EFLO CreateElasticNetworkInterfaceV2, AssignLeniPrivateIPAddress2) over real SDK clients whose HTTP transport is the harness; for every wrapper and every ordered pair of failure kinds {connection error, HTTP 500, HTTP 400 quota code, HTTP 403 throttling, HTTP 200 with a non-zero business code, HTTP 200 with a garbled body}: call; call again with identical parameters; call with other parameters; oracle on the ClientToken values seen on the wire: the retry carries the token of the failed attempt, a request with other parameters never does, no request goes out without a token")
	kinds := []string{"transport", "http500", "http400-quota", "http403-throttle", "business-code", "garbled"}
	type wrapper struct {
		name string
		call func(a *OpenAPI, variant int) error
	}
	ctx := context.Background()
	cno := func(variant int) *CreateNetworkInterfaceOptions {
		return &CreateNetworkInterfaceOptions{NetworkInterfaceOptions: &NetworkInterfaceOptions{VSwitchID: fmt.Sprintf("vsw-%d", 1+variant), SecurityGroupIDs: []string{"sg-1"}, InstanceID: "i-1", ZoneID: "z1", IPCount: 1, Tags: map[string]string{"a": "1", "b": "2"}}}
	}
	apo := func(variant int) *AssignPrivateIPAddressOptions {
		return &AssignPrivateIPAddressOptions{NetworkInterfaceOptions: &NetworkInterfaceOptions{NetworkInterfaceID: fmt.Sprintf("eni-%d", 1+variant), IPCount: 1}}
	}
	a6o := func(variant int) *AssignIPv6AddressesOptions {
		return &AssignIPv6AddressesOptions{NetworkInterfaceOptions: &NetworkInterfaceOptions{NetworkInterfaceID: fmt.Sprintf("eni-%d", 1+variant), IPv6Count: 1}}
	}
	ws := []wrapper{
		{"ecs.CreateNetworkInterface", func(a *OpenAPI, v int) error { _, err := a.CreateNetworkInterface(ctx, cno(v)); return err }},
		{"ecs.AssignPrivateIPAddress", func(a *OpenAPI, v int) error { _, err := a.AssignPrivateIPAddress(ctx, apo(v)); return err }},
		{"ecs.AssignIpv6Addresses", func(a *OpenAPI, v int) error { _, err := a.AssignIpv6Addresses(ctx, a6o(v)); return err }},
		{"ecs.AssignPrivateIPAddress2", func(a *OpenAPI, v int) error { _, err := a.AssignPrivateIPAddress2(ctx, apo(v)); return err }},
		{"ecs.AssignIpv6Addresses2", func(a *OpenAPI, v int) error { _, err := a.AssignIpv6Addresses2(ctx, a6o(v)); return err }},
		{"eflo.CreateElasticNetworkInterfaceV2", func(a *OpenAPI, v int) error { _, err := a.CreateElasticNetworkInterfaceV2(ctx, cno(v)); return err }},
		{"eflo.AssignLeniPrivateIPAddress2", func(a *OpenAPI, v int) error { _, err := a.AssignLeniPrivateIPAddress2(ctx, apo(v)); return err }},
	}
	for _, w := range ws {
		for _, k1 := range kinds {
			for _, k2 := range kinds {
				cloud := &wireCloud{}
				ec, err1 := ecs.NewClientWithAccessKey("cn-hangzhou", "ak", "sk")
				fc, err2 := eflo.NewClientWithAccessKey("cn-hangzhou", "ak", "sk")
				if err1 != nil || err2 != nil {
					t.Fatalf("sdk clients: %v %v", err1, err2)
				}
				ec.Domain, fc.Domain = "ecs.verif.invalid", "eflo.verif.invalid"
				ec.SetTransport(cloud)
				fc.SetTransport(cloud)
				api, err := New(&wireClients{e: ec, f: fc}, LimitConfig{})
				if err != nil {
					t.Fatalf("New: %v", err)
				}
				in := map[string]any{"wrapper": w.name, "first_failure": k1, "second_failure": k2}
				var e1, e2, e3 error
				if p, pv, st := ev.Guard(func() {
					cloud.kind = k1
					e1 = w.call(api, 0)
					cloud.kind = k2
					e2 = w.call(api, 0)
					e3 = w.call(api, 1)
				}); p {
					r.Violate("C16/wire/panic/"+w.name, fmt.Sprintf("%v: %v\n%s", in, pv, st), in)
					continue
				}
				toks := append([]string{}, cloud.tokens...)
				if e1 == nil || e2 == nil || e3 == nil {
					// a scripted failure that the wrapper reports as success: nothing to compare (and not this property's business)
					r.Case(fmt.Sprintf("%s/%s/%s/accepted", w.name, k1, k2), in)
					continue
				}
				// the wrapper may retry inside one call (back-off on throttling / connection errors): group by call is not
				// visible on the wire, so the oracle is stated on the sets
				if len(toks) < 3 {
					r.Violate("C16/wire/request-not-sent/"+w.name, fmt.Sprintf("%v: tokens on the wire %v", in, toks), in)
					continue
				}
				last := toks[len(toks)-1]
				same := toks[:len(toks)-1]
				for _, tk := range toks {
					if tk == "" {
						r.Violate("C16/wire/request-without-token/"+w.name, fmt.Sprintf("%v: tokens on the wire %q", in, toks), in)
					}
				}
				for _, tk := range same {
					if tk != same[0] {
						r.Violate("C16/wire/retry-with-a-new-token/"+w.name+"/after-"+k1, fmt.Sprintf("%v: a failed request (%s) was retried with identical parameters under another ClientToken: tokens on the wire %q", in, k1, toks), in)
						break
					}
				}
				if last == same[0] {
					r.Violate("C16/wire/token-shared-by-different-parameters/"+w.name, fmt.Sprintf("%v: tokens on the wire %q", in, toks), in)
				}
				r.Case(fmt.Sprintf("%s/%s/%s/%d", w.name, k1, k2, len(toks)), in)
			}
		}
	}
}
