//go:build verif

package client

import (
	"bytes"
	"fmt"
	"os"
	"os/exec"
	"strings"
	"sync"
	"testing"

	"github.com/AliyunContainerService/terway/internal/verif/ev"
)

func TestVerifC16RaceBody(t *testing.T) {
	if os.Getenv("VERIF_RACE_CHILD") == "" {
		t.Skip("body of the free-running race pass")
	}
	if os.Getenv("VERIF_RACE_CHILD") == "selftest" {
		// deliberately racy: shows that the detector is armed in this binary
		x := 0
		var wg sync.WaitGroup
		for i := 0; i < 2; i++ {
			wg.Add(1)
			go func() { defer wg.Done(); x++ }()
		}
		wg.Wait()
		_ = x
		return
	}
	for it := 0; it < 500; it++ {
		g := NewIdempotentKeyGenerator()
		var wg sync.WaitGroup
		for th := 0; th < 3; th++ {
			wg.Add(1)
			go func(th int) {
				defer wg.Done()
				h := "h1"
				if th == 2 {
					h = "h2"
				}
				k := g.GenerateKey(h)
				g.PutBack(h, k)
				_ = g.GenerateKey(h)
			}(th)
		}
		wg.Wait()
	}
}

func TestVerifC16Race(t *testing.T) {
	r := ev.New("C16", "race-pass")
	defer r.Flush()
	r.Rule("auxiliary, sampled (NOT part of the exhaustive verdict): three real goroutines issue;rollback;issue on equal and different parameter hashes x 500 repetitions under the Go race detector; outcome is recorded as an assumption of the model-checking parts")
	r.NotExhaustive()
	body := "TestVerifC16RaceBody"
	st := exec.Command(os.Args[0], "-test.run", "^"+body+"$", "-test.count", "1")
	st.Env = append(os.Environ(), "VERIF_RACE_CHILD=selftest", "GORACE=halt_on_error=0")
	so, _ := st.CombinedOutput()
	if !strings.Contains(string(so), "WARNING: DATA RACE") {
		r.Assume("free-running -race pass: the detector is NOT armed in this binary (a deliberately racy self-test went unreported); nothing is concluded about unsynchronised accesses")
		r.Set("free_running_race_pass", map[string]any{"body": body, "detector_armed": false})
		r.Case("race-pass-unarmed", nil)
		return
	}
	cmd := exec.Command(os.Args[0], "-test.run", "^"+body+"$", "-test.count", "1")
	cmd.Env = append(os.Environ(), "VERIF_RACE_CHILD=1", "GORACE=halt_on_error=0")
	var out bytes.Buffer
	cmd.Stdout, cmd.Stderr = &out, &out
	err := cmd.Run()
	races := strings.Count(out.String(), "WARNING: DATA RACE")
	r.Set("free_running_race_pass", map[string]any{"body": body, "detector_armed": true, "data_races_reported": races, "exit_error": fmt.Sprint(err)})
	switch {
	case races > 0:
		r.Assume("NOT MET: the free-running -race pass reported " + fmt.Sprint(races) + " data race(s); interleavings finer than synchronisation operations exist that the explorer does not enumerate")
		fmt.Println("RACE-OBSERVED in", body)
		fmt.Println(out.String())
	case err != nil:
		r.Assume("free-running -race pass did not complete: " + err.Error())
		fmt.Println(out.String())
	default:
		r.Assume("met in a sampled free-running -race pass (" + body + "): no unsynchronised access to shared state observed, so scheduling at synchronisation operations is sufficient")
	}
	r.Case("race-pass", map[string]any{"body": body, "races": races})
}
