//go:build verif

package ip

import (
	"fmt"
	"math/big"
	"net"
	"net/netip"
	"testing"

	"github.com/AliyunContainerService/terway/internal/verif/ev"
)

// verifRefGateway: third-from-last address of the subnet (last-2), "" if the subnet has < 3 addresses.
func verifRefGateway(p netip.Prefix) string {
	p = p.Masked()
	bits := p.Addr().BitLen()
	host := bits - p.Bits()
	if host < 2 { // 1 or 2 addresses
		return ""
	}
	first := new(big.Int).SetBytes(p.Addr().AsSlice())
	size := new(big.Int).Lsh(big.NewInt(1), uint(host))
	gw := new(big.Int).Add(first, size)
	gw.Sub(gw, big.NewInt(3))
	b := gw.FillBytes(make([]byte, bits/8))
	a, _ := netip.AddrFromSlice(b)
	return a.String()
}

func TestVerifC14Gateway(t *testing.T) {
	r := ev.New("C14", "gateway")
	defer r.Flush()
	r.Rule("every prefix length 0..32 / 0..128 x base addresses (incl. bases whose leading bytes are zero, all-ones, VPC-like) through the real DeriveGatewayIP and GetIPAtIndex(-3); oracle: big-integer 'last-2 inside the subnet, empty iff fewer than 3 addresses'; distinct = (family, prefix length, base class, empty?)")
	v4 := []string{"0.0.0.0", "0.0.1.0", "0.1.0.0", "0.255.255.255", "10.0.0.0", "10.255.0.1", "172.16.5.4", "192.168.1.0", "255.255.255.255", "1.2.3.4", "100.64.0.0", "127.0.0.1"}
	v6 := []string{"::", "::1:0", "0:0:1::", "0:1::", "2408:4005:3aa::", "fd00:aaaa::", "ffff:ffff:ffff:ffff:ffff:ffff:ffff:ffff", "fe80::1", "2001:db8:0:1::", "00ff::", "::ffff:0:0:1"}
	run := func(base string, bits int) {
		for plen := 0; plen <= bits; plen++ {
			a := netip.MustParseAddr(base)
			pfx := netip.PrefixFrom(a, plen)
			cidr := pfx.String()
			want := verifRefGateway(pfx)
			if w, err := netip.ParseAddr(want); err == nil && w.Is4In6() {
				// the reference address is IPv4-mapped: Go's net.IP (and net.IPNet.Contains) treats it as
				// IPv4, so such an "IPv6 subnet" is not representable in the API under test - outside the domain
				r.Case("", nil)
				continue
			}
			var got string
			if p, v, _ := ev.Guard(func() { got = DeriveGatewayIP(cidr) }); p {
				r.Violate("ip.DeriveGatewayIP/panic", fmt.Sprintf("DeriveGatewayIP(%q) panics: %v", cidr, v), cidr)
				continue
			}
			lead := "nz"
			if pfx.Masked().Addr().AsSlice()[0] == 0 {
				lead = "leading-zero-byte"
			}
			if got != want {
				cls := "wrong-address"
				if got == "" {
					cls = "empty"
				}
				r.Violate(fmt.Sprintf("ip.DeriveGatewayIP/%s/%s/v%d", cls, lead, map[int]int{32: 4, 128: 6}[bits]),
					fmt.Sprintf("DeriveGatewayIP(%q) = %q, third-from-last address of the subnet is %q", cidr, got, want), cidr)
			}
			// the gateway must be inside the subnet and parse
			if got != "" {
				g, err := netip.ParseAddr(got)
				if err != nil || !pfx.Masked().Contains(g) {
					r.Violate("ip.DeriveGatewayIP/outside", fmt.Sprintf("DeriveGatewayIP(%q) = %q is not an address inside the subnet", cidr, got), cidr)
				}
			}
			// GetIPAtIndex on the parsed net, the form crdv2/remote use
			_, ipn, _ := net.ParseCIDR(cidr)
			var g2 net.IP
			if p, v, _ := ev.Guard(func() { g2 = GetIPAtIndex(*ipn, -3) }); p {
				r.Violate("ip.GetIPAtIndex/panic", fmt.Sprintf("GetIPAtIndex(%q,-3) panics: %v", cidr, v), cidr)
			} else if (g2 == nil) != (want == "") {
				r.Violate(fmt.Sprintf("ip.GetIPAtIndex/nil-mismatch/%s", lead), fmt.Sprintf("GetIPAtIndex(%q,-3) = %v, want %q", cidr, g2, want), cidr)
			}
			r.Case(fmt.Sprintf("%d/%d/%s/%v", bits, plen, lead, want == ""), map[string]any{"cidr": cidr, "gateway": got, "reference": want})
		}
	}
	for _, b := range v4 {
		run(b, 32)
	}
	for _, b := range v6 {
		run(b, 128)
	}
	// malformed input is answered with "" and never panics
	for _, s := range []string{"", "x", "10.0.0.0", "10.0.0.0/33", "::/129", "10.0.0.0/-1", "/24", "10.0.0.0/24/1"} {
		var got string
		if p, v, _ := ev.Guard(func() { got = DeriveGatewayIP(s) }); p {
			r.Violate("ip.DeriveGatewayIP/panic", fmt.Sprintf("DeriveGatewayIP(%q) panics: %v", s, v), s)
		} else if got != "" {
			r.Violate("ip.DeriveGatewayIP/malformed-accepted", fmt.Sprintf("DeriveGatewayIP(%q) = %q", s, got), s)
		}
		r.Case("malformed/"+s, nil)
	}
}
