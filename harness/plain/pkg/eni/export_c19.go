//go:build verif

package eni

import (
	"context"

	k8stypes "k8s.io/apimachinery/pkg/types"
	"k8s.io/client-go/tools/record"
	"sigs.k8s.io/controller-runtime/pkg/client"
	"sigs.k8s.io/controller-runtime/pkg/reconcile"

	"github.com/AliyunContainerService/terway/pkg/aliyun/instance"
)

type verifMeta struct{}

func (verifMeta) GetRegionID() (string, error)     { return "r1", nil }
func (verifMeta) GetZoneID() (string, error)       { return "z1", nil }
func (verifMeta) GetVSwitchID() (string, error)    { return "vsw-meta", nil }
func (verifMeta) GetPrimaryMAC() (string, error)   { return "00:16:3e:00:00:01", nil }
func (verifMeta) GetInstanceID() (string, error)   { return "i-1", nil }
func (verifMeta) GetInstanceType() (string, error) { return "ecs.x", nil }

// VerifNodeReconcile runs the daemon-side node reconcile (CRD mode) once for nodeName: the seam other packages'
// harnesses use to compose the daemon's part of the Node CR with the controllers' part.
func VerifNodeReconcile(c client.Client, nodeName string) error {
	instance.Init(verifMeta{})
	rec := &nodeReconcile{client: c, record: &record.FakeRecorder{}, nodeName: nodeName}
	_, err := rec.Reconcile(context.Background(), reconcile.Request{NamespacedName: k8stypes.NamespacedName{Name: nodeName}})
	return err
}
