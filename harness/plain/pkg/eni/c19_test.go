//go:build verif

package eni

import (
	"context"
	"fmt"
	"testing"

	corev1 "k8s.io/api/core/v1"
	metav1 "k8s.io/apimachinery/pkg/apis/meta/v1"
	k8stypes "k8s.io/apimachinery/pkg/types"
	"k8s.io/client-go/tools/record"
	"sigs.k8s.io/controller-runtime/pkg/client"
	"sigs.k8s.io/controller-runtime/pkg/client/fake"
	"sigs.k8s.io/controller-runtime/pkg/reconcile"

	"github.com/AliyunContainerService/terway/internal/verif/ev"
	"github.com/AliyunContainerService/terway/pkg/aliyun/instance"
	networkv1beta1 "github.com/AliyunContainerService/terway/pkg/apis/network.alibabacloud.com/v1beta1"
	"github.com/AliyunContainerService/terway/types"
)

type verifInstance struct{}

func (verifInstance) GetRegionID() (string, error)     { return "r1", nil }
func (verifInstance) GetZoneID() (string, error)       { return "z1", nil }
func (verifInstance) GetVSwitchID() (string, error)    { return "vsw-meta", nil }
func (verifInstance) GetPrimaryMAC() (string, error)   { return "00:16:3e:00:00:01", nil }
func (verifInstance) GetInstanceID() (string, error)   { return "i-1", nil }
func (verifInstance) GetInstanceType() (string, error) { return "ecs.x", nil }

func TestVerifC19Flavor(t *testing.T) {
	r := ev.New("C19", "node-cr-flavor")
	defer r.Flush()
	r.Rule("every NodeCap (adapters 0..4, addresses per adapter 1..3 (thorough: 0..8, 1..5), IPv6 {0, same, other}, member limit {0,5}, RDMA quantity 0..1) x eni-config (ip_stack, trunking, RDMA, pool sizes min/max in {-1,0,1,3}, exclusive-ENI label) through the REAL daemon-side nodeReconcile.Reconcile on a fake API server; oracle on the published Node CR: every flavor count >= 0, their sum <= attachable secondary interfaces, at most one trunk / one RDMA slot and only when the instance supports them, IPv6 only with equal per-adapter quotas, pool 0 <= min <= max")
	instance.Init(verifInstance{})
	maxAd, maxPer := 4, 3
	if ev.Thorough() {
		maxAd, maxPer = 8, 5
	}
	for ad := 0; ad <= maxAd; ad++ {
		for per := 1; per <= maxPer; per++ {
			for _, v6 := range []int{0, per, per + 1} {
				for _, member := range []int{0, 5} {
					for eri := 0; eri <= 1; eri++ {
						for _, stack := range []string{"ipv4", "dual", "ipv6"} {
							for _, trunk := range []bool{false, true} {
								for _, excl := range []bool{false, true} {
									for _, pool := range [][2]int{{0, 0}, {1, 3}, {3, 1}, {-1, 3}, {0, -1}} {
										nc := networkv1beta1.NodeCap{Adapters: ad, TotalAdapters: ad + member, IPv4PerAdapter: per, IPv6PerAdapter: v6, MemberAdapterLimit: member, MaxMemberAdapterLimit: member, EriQuantity: eri}
										in := fmt.Sprintf("%+v stack=%s trunk=%v exclusive=%v pool(min,max)=%v", nc, stack, trunk, excl, pool)
										labels := map[string]string{}
										if excl {
											labels[types.ExclusiveENIModeLabel] = string(types.ExclusiveENIOnly)
										}
										node := &networkv1beta1.Node{ObjectMeta: metav1.ObjectMeta{Name: "n1", Labels: labels}, Spec: networkv1beta1.NodeSpec{NodeMetadata: networkv1beta1.NodeMetadata{ZoneID: "z1", InstanceID: "i-1", InstanceType: "ecs.x", RegionID: "r1"}, NodeCap: nc}}
										cm := &corev1.ConfigMap{ObjectMeta: metav1.ObjectMeta{Namespace: "kube-system", Name: "eni-config"}, Data: map[string]string{"eni_conf": fmt.Sprintf(`{"vswitches":{"z1":["vsw-1"]},"security_groups":["sg-1"],"ip_stack":%q,"enable_eni_trunking":%v,"enable_erdma":true,"min_pool_size":%d,"max_pool_size":%d}`, stack, trunk, pool[0], pool[1])}}
										c := fake.NewClientBuilder().WithScheme(types.Scheme).WithObjects(node, cm, &corev1.Node{ObjectMeta: metav1.ObjectMeta{Name: "n1", Labels: labels}}).Build()
										rec := &nodeReconcile{client: c, record: &record.FakeRecorder{}, nodeName: "n1"}
										var err error
										if p, pv, st := ev.Guard(func() {
											_, err = rec.Reconcile(context.Background(), reconcile.Request{NamespacedName: k8stypes.NamespacedName{Name: "n1"}})
										}); p {
											r.Violate("eni.nodeReconcile/panic", fmt.Sprintf("%s: %v\n%s", in, pv, st), in)
											continue
										}
										if err != nil {
											r.Case("err/"+stack, in)
											continue
										}
										got := &networkv1beta1.Node{}
										_ = c.Get(context.Background(), client.ObjectKey{Name: "n1"}, got)
										if got.Spec.ENISpec == nil {
											r.Case("nospec", in)
											continue
										}
										slots := max(ad-1, 0)
										sum, trunks, rdmas := 0, 0, 0
										for _, f := range got.Spec.Flavor {
											if f.Count < 0 {
												r.Violate("eni.nodeReconcile/negative-flavor-count", fmt.Sprintf("%s: flavor %+v", in, got.Spec.Flavor), in)
											}
											sum += max(f.Count, 0)
											if f.NetworkInterfaceType == networkv1beta1.ENITypeTrunk {
												trunks += f.Count
											}
											if f.NetworkInterfaceTrafficMode == networkv1beta1.NetworkInterfaceTrafficModeHighPerformance {
												rdmas += f.Count
											}
										}
										if sum > slots {
											r.Violate("eni.nodeReconcile/flavor-over-attachable-interfaces", fmt.Sprintf("%s: flavor %+v sums to %d, attachable secondary interfaces %d", in, got.Spec.Flavor, sum, slots), in)
										}
										if trunks > 1 || (trunks > 0 && (member <= 0 || excl)) || (got.Spec.ENISpec.EnableTrunk && member <= 0) {
											r.Violate("eni.nodeReconcile/trunk-advertised-unsupported", fmt.Sprintf("%s: flavor %+v enableTrunk=%v", in, got.Spec.Flavor, got.Spec.ENISpec.EnableTrunk), in)
										}
										if rdmas > 0 && eri <= 0 || got.Spec.ENISpec.EnableERDMA && eri <= 0 {
											r.Violate("eni.nodeReconcile/rdma-advertised-unsupported", fmt.Sprintf("%s: flavor %+v", in, got.Spec.Flavor), in)
										}
										if got.Spec.ENISpec.EnableIPv6 && stack == "dual" && v6 != per {
											r.Violate("eni.nodeReconcile/ipv6-advertised-unsupported", fmt.Sprintf("%s", in), in)
										}
										if got.Spec.ENISpec.EnableIPv6 && v6 <= 0 {
											r.Violate("eni.nodeReconcile/ipv6-advertised-without-ipv6-quota", fmt.Sprintf("%s", in), in)
										}
										if p := got.Spec.Pool; p != nil && p.MaxPoolSize > slots*per {
											r.Violate("eni.nodeReconcile/pool-max-over-capacity", fmt.Sprintf("%s: published pool max=%d, capacity %d", in, p.MaxPoolSize, slots*per), in)
										}
										if p := got.Spec.Pool; p != nil && !(0 <= p.MinPoolSize && p.MinPoolSize <= p.MaxPoolSize) {
											cls := "min-over-max"
											if pool[0] < 0 || pool[1] < 0 {
												cls = "negative-input"
											}
											r.Violate("eni.nodeReconcile/pool-watermarks/"+cls, fmt.Sprintf("%s: published pool min=%d max=%d", in, p.MinPoolSize, p.MaxPoolSize), in)
										}
										r.Case(fmt.Sprintf("%+v/%v/%v/%v", got.Spec.Flavor, got.Spec.ENISpec.EnableIPv6, got.Spec.ENISpec.EnableTrunk, got.Spec.Pool), in)
									}
								}
							}
						}
					}
				}
			}
		}
	}
}
