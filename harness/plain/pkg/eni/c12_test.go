//go:build verif

package eni

import (
	"fmt"
	"math/big"
	"net/netip"
	"testing"

	"github.com/AliyunContainerService/terway/internal/verif/ev"
	podENITypes "github.com/AliyunContainerService/terway/pkg/apis/network.alibabacloud.com/v1beta1"
	"github.com/AliyunContainerService/terway/rpc"
	"github.com/AliyunContainerService/terway/types/daemon"
)

func verifThirdFromLast(cidr string) string {
	p, err := netip.ParsePrefix(cidr)
	if err != nil {
		return ""
	}
	p = p.Masked()
	bits := p.Addr().BitLen()
	host := bits - p.Bits()
	if host < 2 {
		return ""
	}
	first := new(big.Int).SetBytes(p.Addr().AsSlice())
	gw := new(big.Int).Add(first, new(big.Int).Lsh(big.NewInt(1), uint(host)))
	gw.Sub(gw, big.NewInt(3))
	a, _ := netip.AddrFromSlice(gw.FillBytes(make([]byte, bits/8)))
	return a.String()
}

// verifCheckNetConf is the per-configuration part of C12's oracle.
func verifCheckNetConf(r *ev.Rec, where string, c *rpc.NetConf, in any) {
	if c.BasicInfo == nil || c.BasicInfo.PodIP == nil {
		r.Violate("C12/"+where+"/netconf-without-address", fmt.Sprintf("%v: %+v", in, c), in)
		return
	}
	chk := func(fam, ip, cidr, gw string) {
		if ip == "" {
			return
		}
		a, err := netip.ParseAddr(ip)
		p, perr := netip.ParsePrefix(cidr)
		if err != nil || perr != nil {
			r.Violate("C12/"+where+"/unparseable-address-or-cidr/"+fam, fmt.Sprintf("%v: ip %q cidr %q", in, ip, cidr), in)
			return
		}
		if !p.Contains(a) {
			r.Violate("C12/"+where+"/address-outside-subnet/"+fam, fmt.Sprintf("%v: %s not in %s", in, ip, cidr), in)
		}
		want := verifThirdFromLast(cidr)
		if gw != want {
			r.Violate("C12/"+where+"/gateway-not-third-from-last/"+fam, fmt.Sprintf("%v: subnet %s gateway %q, reserved gateway %q", in, cidr, gw, want), in)
		}
		if gw == ip {
			r.Violate("C12/"+where+"/gateway-equals-pod-address/"+fam, fmt.Sprintf("%v: %s", in, ip), in)
		}
	}
	pc, gw := c.BasicInfo.PodCIDR, c.BasicInfo.GatewayIP
	if pc == nil {
		pc = &rpc.IPSet{}
	}
	if gw == nil {
		gw = &rpc.IPSet{}
	}
	chk("v4", c.BasicInfo.PodIP.IPv4, pc.IPv4, gw.IPv4)
	chk("v6", c.BasicInfo.PodIP.IPv6, pc.IPv6, gw.IPv6)
}

func TestVerifC12Remote(t *testing.T) {
	r := ev.New("C12", "podeni-to-netconf")
	defer r.Flush()
	r.Rule("every PodENI with 1-3 allocations x family {v4, v6, dual} x subnet {/16, /24, /29, /30, /31, /32, /64, /126, /127, empty} (thorough: additionally every IPv4 length 8..32 and IPv6 lengths 32..128 in 12 steps) x address position {first host, last-3, the reserved gateway itself, outside} x trunk {with status entry, missing status entry, no trunk} x interface names / default-route flags / extra routes through the real RemoteIPResource.ToRPC; oracle (records whose addresses are inside their subnet, as the cloud assigns them): every produced configuration carries the address, its subnet and that subnet's reserved gateway (third from last, != address), all allocations or none are returned, nothing is returned for a subnet without reserved gateway or a trunk record without status entry; records with addresses outside the subnet / equal to the gateway are only run for crashes")
	type sub struct{ cidr, in, gw, out string }
	v4s := []sub{{"10.0.0.0/16", "10.0.0.5", "10.0.255.253", "10.1.0.5"}, {"192.168.1.0/24", "192.168.1.10", "192.168.1.253", "192.168.2.1"}, {"10.0.0.0/29", "10.0.0.1", "10.0.0.5", "10.0.0.9"},
		{"10.0.0.0/30", "10.0.0.2", "10.0.0.1", "10.0.0.4"}, {"10.0.0.0/31", "10.0.0.1", "", "10.0.0.2"}, {"10.0.0.1/32", "10.0.0.1", "", "10.0.0.2"}, {"", "10.0.0.5", "", "10.0.0.5"}}
	v6s := []sub{{"fd00::/64", "fd00::5", "fd00::ffff:ffff:ffff:fffd", "fd01::5"}, {"fd00::/126", "fd00::2", "fd00::1", "fd00::5"}, {"fd00::/127", "fd00::1", "", "fd00::2"}, {"", "fd00::5", "", "fd00::5"}}
	if ev.Thorough() {
		// thorough: every IPv4 prefix length 8..32 and a ladder of IPv6 lengths, addresses computed from the prefix
		gen := func(base string, lens []int, outside string) (out []sub) {
			b := netip.MustParseAddr(base)
			for _, l := range lens {
				p := netip.PrefixFrom(b, l).Masked()
				gw := verifThirdFromLast(p.String())
				in := p.Addr()
				if b.BitLen()-l >= 1 {
					in = in.Next()
				}
				if in.String() == gw {
					in = in.Next()
				}
				out = append(out, sub{p.String(), in.String(), gw, outside})
			}
			return
		}
		var l4 []int
		for l := 8; l <= 32; l++ {
			l4 = append(l4, l)
		}
		v4s = append(v4s, gen("10.77.200.64", l4, "203.0.113.1")...)
		v6s = append(v6s, gen("fd00:1:2:3:4:5:6:40", []int{32, 48, 56, 64, 96, 112, 120, 124, 125, 126, 127, 128}, "2001:db8::1")...)
	}
	for _, fam := range []string{"v4", "v6", "dual"} {
		for _, s4 := range v4s {
			for _, s6 := range v6s {
				if fam == "v4" && s6 != v6s[0] || fam == "v6" && s4 != v4s[0] {
					continue
				}
				for _, pos := range []string{"in", "gw", "out"} {
					for _, trunk := range []string{"none", "trunk", "trunk-nostatus"} {
						for n := 1; n <= 3; n++ {
							pe := podENITypes.PodENI{}
							pe.Status.ENIInfos = map[string]podENITypes.ENIInfo{}
							okExpected := true
							for i := 0; i < n; i++ {
								a := podENITypes.Allocation{ENI: podENITypes.ENI{ID: fmt.Sprintf("eni-%d", i), MAC: ""}, Interface: []string{"eth0", "eth1", "eth2"}[i], DefaultRoute: i == 0, ExtraRoutes: []podENITypes.Route{{Dst: "172.16.0.0/12"}}}
								pick := func(s sub) string {
									switch pos {
									case "gw":
										if s.gw != "" {
											return s.gw
										}
										return s.in
									case "out":
										return s.out
									}
									return s.in
								}
								if fam != "v6" {
									a.IPv4, a.IPv4CIDR = pick(s4), s4.cidr
									if s4.gw == "" || pos != "in" {
										okExpected = false
									}
								}
								if fam != "v4" {
									a.IPv6, a.IPv6CIDR = pick(s6), s6.cidr
									if s6.gw == "" || pos != "in" {
										okExpected = false
									}
								}
								pe.Spec.Allocations = append(pe.Spec.Allocations, a)
								if trunk == "trunk" {
									pe.Status.ENIInfos[a.ENI.ID] = podENITypes.ENIInfo{ID: a.ENI.ID, Vid: 100 + i}
								}
							}
							res := &RemoteIPResource{podENI: pe}
							if trunk != "none" {
								res.trunkENI = daemon.ENI{ID: "eni-trunk", MAC: ""}
							}
							in := fmt.Sprintf("family=%s v4=%s v6=%s position=%s trunk=%s allocations=%d", fam, s4.cidr, s6.cidr, pos, trunk, n)
							var out []*rpc.NetConf
							if p, pv, _ := ev.Guard(func() { out = res.ToRPC() }); p {
								r.Violate("C12/remote/panic", fmt.Sprintf("%s: %v", in, pv), in)
								continue
							}
							if trunk == "trunk-nostatus" {
								okExpected = false
							}
							produced := len(out) > 0
							if produced && len(out) != n {
								r.Violate("C12/remote/partial-netconf-list", fmt.Sprintf("%s: %d of %d", in, len(out), n), in)
							}
							// whatever is produced must be self-consistent; a pod address outside its subnet / equal to the gateway must not be produced
							// addresses come from the cloud, which assigns inside the vSwitch and never the reserved gateway:
							// the consistency oracle applies to those records; the others are only run for crashes
							if pos == "in" {
								for _, c := range out {
									verifCheckNetConf(r, "remote", c, in)
								}
							}
							if !produced && okExpected {
								r.Violate("C12/remote/valid-allocation-dropped", fmt.Sprintf("%s: nothing returned", in), in)
							}
							r.Case(fmt.Sprintf("%s/%s/%s/%v/%d", fam, pos, trunk, produced, n), in)
						}
					}
				}
			}
		}
	}
}
