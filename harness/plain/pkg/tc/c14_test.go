//go:build verif

package tc

import (
	"encoding/binary"
	"fmt"
	"net"
	"net/netip"
	"sync"
	"testing"

	"github.com/AliyunContainerService/terway/internal/verif/ev"
	"github.com/vishvananda/netlink"
)

// verifU32Match is the kernel's u32 evaluation: every key must satisfy ((word(off) ^ val) & mask) == 0.
func verifU32Match(keys []netlink.TcU32Key, pkt []byte) bool {
	for _, k := range keys {
		w := binary.BigEndian.Uint32(pkt[k.Off : k.Off+4])
		if (w^k.Val)&k.Mask != 0 {
			return false
		}
	}
	return true
}

var verifV4Bases = []uint32{0x00000000, 0xffffffff, 0x0a000001, 0xc0a80164, 0x80000000, 0x00ff00ff}

func verifPerturb32(base uint32, f func(uint32)) {
	f(base)
	for i := 0; i < 32; i++ {
		f(base ^ 1<<i)
		for j := i + 1; j < 32; j++ {
			f(base ^ 1<<i ^ 1<<j)
		}
	}
}

func TestVerifC14U32v4(t *testing.T) {
	r := ev.New("C14", "u32v4")
	defer r.Flush()
	r.Rule("every IPv4 prefix length 0..32 x base pattern; key from the real U32IPv4Src/U32MatchSrc; packets = base perturbed in <=2 bit positions + boundary addresses (quick) or all 2^32 source addresses (thorough); oracle: kernel u32 evaluation of the key on an IPv4 header == netip.Prefix.Contains; distinct = (prefix length, base, match outcome)")
	bases := verifV4Bases
	if ev.Thorough() {
		bases = bases[:4]
	}
	for plen := 0; plen <= 32; plen++ {
		for _, base := range bases {
			var a4 [4]byte
			binary.BigEndian.PutUint32(a4[:], base)
			pfx := netip.PrefixFrom(netip.AddrFrom4(a4), plen)
			// both shapes the callers produce: ParseCIDR (masked IP) and IP-with-mask (unmasked)
			for shape := 0; shape < 2; shape++ {
				ipn := &net.IPNet{IP: net.IP(a4[:]).To4(), Mask: net.CIDRMask(plen, 32)}
				if shape == 1 {
					_, ipn, _ = net.ParseCIDR(pfx.String())
				}
				var keys []netlink.TcU32Key
				if p, v, _ := ev.Guard(func() { keys = U32MatchSrc(ipn) }); p {
					r.Violate("tc.U32MatchSrc/panic/v4", fmt.Sprintf("%v panics: %v", ipn, v), ipn.String())
					continue
				}
				for _, k := range keys {
					if k.Off != 12 || k.OffMask != 0 {
						r.Violate("tc.U32IPv4Src/offset", fmt.Sprintf("%v: key offset %d, IPv4 source address is at 12", ipn, k.Off), ipn.String())
					}
				}
				check := func(src uint32) bool {
					var pkt [20]byte
					binary.BigEndian.PutUint32(pkt[12:], src)
					binary.BigEndian.PutUint32(pkt[16:], ^src) // destination must not matter
					var s4 [4]byte
					binary.BigEndian.PutUint32(s4[:], src)
					want := pfx.Contains(netip.AddrFrom4(s4))
					got := verifU32Match(keys, pkt[:])
					if got != want {
						r.Violate(fmt.Sprintf("tc.U32MatchSrc/v4/mismatch/plen=%d", plen),
							fmt.Sprintf("cidr %v src %v: classifier match=%v, in CIDR=%v (keys %+v)", ipn, netip.AddrFrom4(s4), got, want, keys),
							map[string]any{"cidr": ipn.String(), "src": netip.AddrFrom4(s4).String()})
					}
					return got
				}
				if ev.Thorough() && shape == 0 {
					// all 2^32 packets, 16 goroutines (plain, free-running: pure function)
					var wg sync.WaitGroup
					var bad [16]uint64
					k := keys
					for w := 0; w < 16; w++ {
						wg.Add(1)
						go func(w int) {
							defer wg.Done()
							lo := uint64(w) << 28
							var mask, val uint32
							var cnt uint64
							if len(k) == 1 {
								mask, val = k[0].Mask, k[0].Val
							}
							bits := pfx.Bits()
							var pm uint32
							if bits > 0 {
								pm = ^uint32(0) << (32 - bits)
							}
							pv := base & pm
							for x := lo; x < lo+(1<<28); x++ {
								s := uint32(x)
								got := len(k) == 0 || (s^val)&mask == 0
								want := s&pm == pv
								if got != want {
									cnt++
								}
							}
							bad[w] = cnt
						}(w)
					}
					wg.Wait()
					var tot uint64
					for _, b := range bad {
						tot += b
					}
					if len(k) > 1 {
						r.Violate("tc.U32MatchSrc/v4/nkeys", fmt.Sprintf("%v: %d keys for an IPv4 CIDR", ipn, len(k)), ipn.String())
					}
					if tot > 0 {
						r.Violate(fmt.Sprintf("tc.U32MatchSrc/v4/mismatch/plen=%d", plen), fmt.Sprintf("cidr %v: %d of 2^32 source addresses misclassified", ipn, tot), ipn.String())
					}
					r.Add("full_space_cidrs", 1)
					r.Add("full_space_packets", 1<<32)
				}
				verifPerturb32(base, func(s uint32) {
					got := check(s)
					r.Case(fmt.Sprintf("%d/%08x/%v", plen, base, got), map[string]any{"cidr": ipn.String(), "src": s, "match": got})
				})
				// boundary addresses of the prefix
				lo := binary.BigEndian.Uint32(pfx.Masked().Addr().AsSlice())
				var span uint32
				if plen < 32 {
					span = ^uint32(0) >> plen
				}
				for _, s := range []uint32{lo, lo + span, lo - 1, lo + span + 1} {
					got := check(s)
					r.Case(fmt.Sprintf("%d/%08x/%v", plen, base, got), nil)
				}
			}
		}
	}
}

var verifV6Bases = [][16]byte{
	{},
	{0xff, 0xff, 0xff, 0xff, 0xff, 0xff, 0xff, 0xff, 0xff, 0xff, 0xff, 0xff, 0xff, 0xff, 0xff, 0xff},
	{0x24, 0x08, 0x40, 0x05, 0x03, 0xaa, 0, 0, 0, 0, 0, 0, 0, 0, 0, 1},
	{0xfd, 0, 0xaa, 0xaa, 0, 0, 0, 0, 0x80, 0, 0, 0, 0, 0, 0, 0},
	{0, 0, 0, 0, 0, 0, 0, 0, 0, 0, 0xff, 0xfe, 0x0a, 0, 0, 1}, // not v4-mapped: a v4-mapped IPNet is an IPv4 net in Go and is never produced by terway
	{0x80, 0, 0, 1, 0, 0xff, 0, 0xff, 0x55, 0xaa, 0x55, 0xaa, 0x01, 0x02, 0x03, 0x04},
}

func TestVerifC14U32v6(t *testing.T) {
	r := ev.New("C14", "u32v6")
	defer r.Flush()
	r.Rule("every IPv6 prefix length 0..128 x 6 base patterns; keys from the real U32IPv6Src/U32MatchSrc; packets = base perturbed in <=2 bit positions (8257 per CIDR) plus, thorough, all 2^k patterns of the 10 bits around the prefix boundary; oracle: kernel u32 evaluation on an IPv6 header == netip.Prefix.Contains; the full 2^128 space is not enumerable")
	r.NotExhaustive()
	for plen := 0; plen <= 128; plen++ {
		for bi, base := range verifV6Bases {
			pfx := netip.PrefixFrom(netip.AddrFrom16(base), plen)
			ipn := &net.IPNet{IP: net.IP(base[:]), Mask: net.CIDRMask(plen, 128)}
			var keys []netlink.TcU32Key
			if p, v, _ := ev.Guard(func() { keys = U32MatchSrc(ipn) }); p {
				r.Violate("tc.U32MatchSrc/panic/v6", fmt.Sprintf("%v panics: %v", ipn, v), ipn.String())
				continue
			}
			for _, k := range keys {
				if k.Off < 8 || k.Off > 20 || k.Off%4 != 0 {
					r.Violate("tc.U32IPv6Src/offset", fmt.Sprintf("%v: key offset %d outside the IPv6 source address words 8,12,16,20", ipn, k.Off), ipn.String())
				}
			}
			check := func(src [16]byte) {
				var pkt [40]byte
				copy(pkt[8:24], src[:])
				for i := range src {
					pkt[24+i] = ^src[i]
				}
				want := pfx.Contains(netip.AddrFrom16(src))
				badOff := false
				for _, k := range keys {
					if k.Off < 0 || int(k.Off)+4 > len(pkt) {
						badOff = true
					}
				}
				if badOff {
					return
				}
				got := verifU32Match(keys, pkt[:])
				if got != want {
					r.Violate(fmt.Sprintf("tc.U32MatchSrc/v6/mismatch/word=%d", (plen-1)/32),
						fmt.Sprintf("cidr %v src %v: classifier match=%v, in CIDR=%v (keys %+v)", ipn, netip.AddrFrom16(src), got, want, keys),
						map[string]any{"cidr": ipn.String(), "src": netip.AddrFrom16(src).String()})
				}
				r.Case(fmt.Sprintf("%d/%d/%v", plen, bi, got), map[string]any{"cidr": ipn.String(), "src": netip.AddrFrom16(src).String(), "match": got})
			}
			flip := func(a [16]byte, bit int) [16]byte { a[bit/8] ^= 0x80 >> (bit % 8); return a }
			check(base)
			for i := 0; i < 128; i++ {
				a := flip(base, i)
				check(a)
				for j := i + 1; j < 128; j++ {
					check(flip(a, j))
				}
			}
			if ev.Thorough() {
				lo := plen - 5
				if lo < 0 {
					lo = 0
				}
				hi := lo + 10
				if hi > 128 {
					hi, lo = 128, 118
				}
				for m := 0; m < 1<<10; m++ {
					a := base
					for b := 0; b < hi-lo; b++ {
						if m>>b&1 == 1 {
							a = flip(a, lo+b)
						}
					}
					check(a)
				}
			}
		}
	}
}
