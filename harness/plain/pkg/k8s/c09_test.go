//go:build verif

package k8s

import (
	"context"
	"fmt"
	"sort"
	"strings"
	"sync"
	"testing"

	corev1 "k8s.io/api/core/v1"
	apierrors "k8s.io/apimachinery/pkg/api/errors"
	metav1 "k8s.io/apimachinery/pkg/apis/meta/v1"
	"k8s.io/apimachinery/pkg/fields"
	"k8s.io/apimachinery/pkg/runtime"
	"k8s.io/apimachinery/pkg/util/sets"
	clientgoscheme "k8s.io/client-go/kubernetes/scheme"
	"sigs.k8s.io/controller-runtime/pkg/client"
	"sigs.k8s.io/controller-runtime/pkg/client/fake"
	"sigs.k8s.io/controller-runtime/pkg/client/interceptor"

	"github.com/AliyunContainerService/terway/internal/verif/ev"
	"github.com/AliyunContainerService/terway/types"
	"github.com/AliyunContainerService/terway/types/daemon"
)

// TestVerifC09Client binds the table-driven pod source used by the daemon worlds (harness/weave/daemon: verifK8s) to the
// REAL pkg/k8s implementation: "the API confirms the pod absent" and "the node-local pod list" are decided here.
func TestVerifC09Client(t *testing.T) {
	r := ev.New("C09", "k8s-client-conformance")
	defer r.Flush()
	r.Rule("every population of <=2 pods over {scheduled on this node, on another node, unscheduled} x phase {Pending, Running, Succeeded, Failed} x {ignored-by-terway label, host network, being deleted} (+ an absent name) x API behaviour {healthy, the pod lookup fails with a server error, the list fails} through the REAL pkg/k8s PodExist / GetLocalPods on a fake API server with the spec.nodeName index; oracle = the semantics the daemon worlds assume of their pod table: PodExist is (true, nil) iff a pod of that name exists AND is scheduled on this node, (false, nil) iff the API answered and that is not the case, (_, error) iff the lookup failed - never 'absent' on an error; GetLocalPods lists exactly the pods scheduled on this node that terway does not ignore, with the sandbox-exited flag iff the phase is Succeeded or Failed, and reports a failing list as an error")
	scheme := runtime.NewScheme()
	_ = clientgoscheme.AddToScheme(scheme)
	type shape struct {
		node    string
		phase   corev1.PodPhase
		ignored bool
		hostNet bool
		deleted bool
	}
	var shapes []shape
	for _, n := range []string{"node-1", "node-2", ""} {
		for _, ph := range []corev1.PodPhase{corev1.PodPending, corev1.PodRunning, corev1.PodSucceeded, corev1.PodFailed} {
			shapes = append(shapes, shape{n, ph, false, false, false})
		}
		shapes = append(shapes, shape{n, corev1.PodRunning, true, false, false}, shape{n, corev1.PodRunning, false, true, false}, shape{n, corev1.PodRunning, false, false, true})
	}
	mk := func(name string, s shape) *corev1.Pod {
		p := &corev1.Pod{ObjectMeta: metav1.ObjectMeta{Namespace: "ns", Name: name, Labels: map[string]string{}},
			Spec: corev1.PodSpec{NodeName: s.node, HostNetwork: s.hostNet, Containers: []corev1.Container{{Name: "c", Image: "i"}}}, Status: corev1.PodStatus{Phase: s.phase}}
		if s.ignored {
			p.Labels[types.IgnoreByTerway] = "true"
		}
		if s.deleted {
			now := metav1.Now()
			p.DeletionTimestamp = &now
			p.Finalizers = []string{"x/y"}
		}
		return p
	}
	run := func(pods map[string]shape, apiMode string) {
		var objs []client.Object
		var names []string
		for n := range pods {
			names = append(names, n)
		}
		sort.Strings(names)
		for _, n := range names {
			objs = append(objs, mk(n, pods[n]))
		}
		cl := fake.NewClientBuilder().WithScheme(scheme).WithObjects(objs...).
			WithIndex(&corev1.Pod{}, "spec.nodeName", func(o client.Object) []string { return []string{o.(*corev1.Pod).Spec.NodeName} }).
			WithInterceptorFuncs(interceptor.Funcs{
				Get: func(ctx context.Context, c client.WithWatch, key client.ObjectKey, obj client.Object, opts ...client.GetOption) error {
					if _, isPod := obj.(*corev1.Pod); isPod && apiMode == "get-fails" {
						return apierrors.NewInternalError(fmt.Errorf("etcd unavailable"))
					}
					return c.Get(ctx, key, obj, opts...)
				},
				List: func(ctx context.Context, c client.WithWatch, list client.ObjectList, opts ...client.ListOption) error {
					if apiMode == "list-fails" {
						return apierrors.NewInternalError(fmt.Errorf("etcd unavailable"))
					}
					// the real API server honours the raw field selector; the fake client only looks at ListOptions.FieldSelector
					lo := &client.ListOptions{}
					lo.ApplyOptions(opts)
					if lo.Raw != nil && lo.Raw.FieldSelector != "" && lo.FieldSelector == nil {
						if sel, err := fields.ParseSelector(lo.Raw.FieldSelector); err == nil {
							lo.FieldSelector = sel
						}
					}
					return c.List(ctx, list, lo)
				},
			}).Build()
		k := &k8s{client: cl, nodeName: "node-1", mode: daemon.ModeENIMultiIP, statefulWorkloadKindSet: sets.New("statefulset"), Locker: &sync.RWMutex{}}
		in := map[string]any{"pods": fmt.Sprint(pods), "api": apiMode}
		for _, name := range append(append([]string{}, names...), "absent") {
			sh, present := pods[name]
			var ok bool
			var err error
			if p, pv, st := ev.Guard(func() { ok, err = k.PodExist("ns", name) }); p {
				r.Violate("C09/k8s/PodExist-panic", fmt.Sprintf("%v %s: %v\n%s", in, name, pv, st), in)
				continue
			}
			switch {
			case apiMode == "get-fails":
				if err == nil {
					r.Violate("C09/k8s/lookup-error-reported-as-answer", fmt.Sprintf("%v: PodExist(%s) = (%v, nil) although the lookup failed", in, name, ok), in)
				}
			case err != nil:
				r.Violate("C09/k8s/PodExist-error-on-healthy-api", fmt.Sprintf("%v: PodExist(%s): %v", in, name, err), in)
			default:
				want := present && sh.node == "node-1"
				if ok != want {
					cls := "pod-on-this-node-reported-absent"
					if ok {
						cls = "pod-not-on-this-node-reported-present"
					}
					r.Violate("C09/k8s/"+cls, fmt.Sprintf("%v: PodExist(%s) = %v, the pod is present=%v on node %q (this node is node-1)", in, name, ok, present, sh.node), in)
				}
			}
			r.Case(fmt.Sprintf("exist/%s/%v/%v/%v", apiMode, present, sh.node, ok), in)
		}
		var local []*daemon.PodInfo
		var err error
		if p, pv, st := ev.Guard(func() { local, err = k.GetLocalPods() }); p {
			r.Violate("C09/k8s/GetLocalPods-panic", fmt.Sprintf("%v: %v\n%s", in, pv, st), in)
			return
		}
		if apiMode == "list-fails" {
			if err == nil {
				r.Violate("C09/k8s/list-error-reported-as-answer", fmt.Sprintf("%v: GetLocalPods returned %d pods and no error although the list failed", in, len(local)), in)
			}
			return
		}
		if err != nil {
			r.Violate("C09/k8s/GetLocalPods-error-on-healthy-api", fmt.Sprintf("%v: %v", in, err), in)
			return
		}
		got := map[string]bool{}
		for _, pi := range local {
			got[pi.Name] = pi.SandboxExited
		}
		var gl, wl []string
		for _, n := range names {
			sh := pods[n]
			if sh.node == "node-1" && !sh.ignored {
				exited := sh.phase == corev1.PodSucceeded || sh.phase == corev1.PodFailed
				wl = append(wl, fmt.Sprintf("%s:%v", n, exited))
			}
		}
		for n, e := range got {
			gl = append(gl, fmt.Sprintf("%s:%v", n, e))
		}
		sort.Strings(gl)
		sort.Strings(wl)
		if strings.Join(gl, ",") != strings.Join(wl, ",") {
			r.Violate("C09/k8s/local-pod-list-differs", fmt.Sprintf("%v: GetLocalPods = %v (name:sandboxExited), expected %v", in, gl, wl), in)
		}
		r.Case(fmt.Sprintf("list/%s/%d", apiMode, len(gl)), in)
	}
	for _, api := range []string{"healthy", "get-fails", "list-fails"} {
		run(map[string]shape{}, api)
		for _, a := range shapes {
			run(map[string]shape{"p": a}, api)
			for _, b := range shapes {
				run(map[string]shape{"p": a, "q": b}, api)
			}
		}
	}
}
