//go:build verif

package k8s

import (
	"fmt"
	"regexp"
	"testing"

	"github.com/AliyunContainerService/terway/internal/verif/ev"
	"github.com/AliyunContainerService/terway/types"
	"github.com/AliyunContainerService/terway/types/daemon"
	corev1 "k8s.io/api/core/v1"
	metav1 "k8s.io/apimachinery/pkg/apis/meta/v1"
	"k8s.io/apimachinery/pkg/util/sets"
)

var verifBWAlphabet = []string{"0", "1", "9", ".", "-", "+", "e", "k", "K", "m", "M", "g", "G", "t", "T", "b", "B", "i", " ", "é"}

func verifStrings(alpha []string, maxLen int, f func(string)) {
	var rec func(p string, n int)
	rec = func(p string, n int) {
		f(p)
		if n == 0 {
			return
		}
		for _, c := range alpha {
			rec(p+c, n-1)
		}
	}
	rec("", maxLen)
}

var verifWellFormedNumber = regexp.MustCompile(`^[0-9]+(\.[0-9]+)?$`)

func verifPositive(s string) bool {
	for _, c := range s {
		if c >= '1' && c <= '9' {
			return true
		}
	}
	return false
}

func TestVerifC15Bandwidth(t *testing.T) {
	r := ev.New("C15", "bandwidth")
	defer r.Flush()
	maxLen := 4
	if ev.Thorough() {
		maxLen = 5
	}
	r.Rule(fmt.Sprintf("every string of length <=%d over a 20-symbol alphabet (digits, sign, dot, exponent, unit letters in both cases, space, a non-ASCII letter) + curated long values through the real parseBandwidth under recover, and (length <=3 + every accepted value) through convertPod as ingress/egress annotation; unit ladder laws on every well-formed positive number n: n, nB accepted and equal; nK==nKB==nKiB==1024*n ... T; distinct = (outcome class: panic/error/accepted-by-unit)", maxLen))
	parse := func(s string) (v uint64, err error, panicked bool) {
		p, pv, _ := ev.Guard(func() { v, err = parseBandwidth(s) })
		if p {
			cls := "other"
			if verifWellFormedNumber.MatchString(s) {
				cls = "unit-less-number"
			} else if len(s) > 0 && regexp.MustCompile(`^[^\pL]*$`).MatchString(s) {
				cls = "no-letter"
			}
			r.Violate("k8s.parseBandwidth/panic/"+cls, fmt.Sprintf("parseBandwidth(%q) panics: %v", s, pv), s)
		}
		return v, err, p
	}
	units := [][]string{{"", "B"}, {"K", "KB", "KiB", "k", "kb"}, {"M", "MB", "MiB", "m"}, {"G", "GB", "GiB", "g"}, {"T", "TB", "TiB", "t"}}
	ladder := func(n string) {
		if !verifWellFormedNumber.MatchString(n) || !verifPositive(n) {
			return
		}
		var prev uint64
		for lvl, sp := range units {
			var first uint64
			haveFirst := false
			for _, u := range sp {
				v, err, p := parse(n + u)
				if p {
					continue
				}
				if err != nil {
					r.Violate(fmt.Sprintf("k8s.parseBandwidth/well-formed-rejected/unit=%q", u), fmt.Sprintf("parseBandwidth(%q): %v", n+u, err), n+u)
					continue
				}
				if !haveFirst {
					first, haveFirst = v, true
				} else if v != first {
					r.Violate("k8s.parseBandwidth/spelling-variants-differ", fmt.Sprintf("%q -> %d but %q -> %d", n+sp[0], first, n+u, v), n+u)
				}
			}
			if lvl > 0 && first < prev {
				r.Violate("k8s.parseBandwidth/not-monotonic", fmt.Sprintf("%q%s -> %d < %d at the unit below", n, sp[0], first, prev), n+sp[0])
			}
			if first > 0 {
				prev = first
			}
		}
	}
	var accepted []string
	verifStrings(verifBWAlphabet, maxLen, func(s string) {
		v, err, p := parse(s)
		cls := "error"
		if p {
			cls = "panic"
		} else if err == nil {
			cls = fmt.Sprintf("ok/%d", len(fmt.Sprint(v)))
			if v == 0 && verifPositive(s) && false {
				cls = "ok-zero"
			}
			accepted = append(accepted, s)
		}
		r.Case(cls, map[string]any{"input": s, "value": v, "class": cls})
		ladder(s)
	})
	for _, s := range []string{"100", "1.5", "10M", "10Mi", "1e3", "1e3K", "0", "0.0", "-1M", "+1M", "1 M", " 1M ", "１M", "1µ", "1M\x00", "NaN", "Inf", "InfM", "infinity", "0x10", "0x1p-2", "1_000", "99999999999999999999999999T", "1.7976931348623157e308T", "٣M", "1K", "\t\n", "1kB", "1Kib", "1.M", ".5G", "1..2M", "18446744073709551615", "18446744073709551616B"} {
		v, err, p := parse(s)
		cls := "error"
		if p {
			cls = "panic"
		} else if err == nil {
			cls = "ok"
		}
		r.Case("curated/"+s+"/"+cls, map[string]any{"input": s, "value": v, "class": cls})
		ladder(s)
	}
	for _, n := range []string{"1", "10", "100", "1.5", "0.5", "1024", "123456789", "9.99", "000001"} {
		ladder(n)
	}

	// the RPC path: convertPod is run on every AllocIP/ReleaseIP/GetIPInfo
	kinds := sets.New("statefulset")
	conv := func(anno map[string]string, what string) {
		pod := &corev1.Pod{ObjectMeta: metav1.ObjectMeta{Name: "p", Namespace: "ns", UID: "u", Annotations: anno}}
		var pi *daemon.PodInfo
		if p, pv, _ := ev.Guard(func() { pi = convertPod(daemon.ModeENIMultiIP, true, kinds, pod) }); p {
			r.Violate("k8s.convertPod/panic/"+what, fmt.Sprintf("convertPod with annotations %q panics: %v", anno, pv), anno)
			return
		}
		if pi == nil {
			r.Violate("k8s.convertPod/nil", fmt.Sprintf("%q", anno), anno)
		}
	}
	n := 0
	verifStrings(verifBWAlphabet, 3, func(s string) {
		conv(map[string]string{podIngressBandwidth: s}, "ingress-bandwidth")
		conv(map[string]string{podEgressBandwidth: s}, "egress-bandwidth")
		n += 2
	})
	for _, s := range accepted {
		if len(s) > 3 {
			conv(map[string]string{podIngressBandwidth: s, podEgressBandwidth: s}, "ingress-bandwidth")
			n++
		}
	}
	vals := []string{"", "true", "false", "1", "0", "TRUE", "t", "yes", " true", "null", "{}", "[]", "guaranteed", "best-effort", "burstable", "Guaranteed", "\x00", "trué"}
	for _, k := range []string{types.PodENI, types.NetworkPriority, types.PodIPReservation, types.PodNetworks, types.PodNetworksRequest, "cpuSet"} {
		for _, v := range vals {
			conv(map[string]string{k: v}, "annotation")
			n++
		}
	}
	r.Add("convertPod_calls", int64(n))
}
