//go:build verif

package link

import (
	"fmt"
	"regexp"
	"testing"

	"github.com/AliyunContainerService/terway/internal/verif/ev"
)

func TestVerifC14VethName(t *testing.T) {
	r := ev.New("C14", "vethname")
	defer r.Flush()
	r.Rule("all (namespace, name) with components over {a,b,-,.,0} up to length 3 plus realistic long names x interface names {'' eth0 eth1 eth2 net1 e a1234} x prefixes {cali (the only one terway uses), ''}; oracle: deterministic, <=15 bytes, valid ifname charset, pairwise distinct across the distinct interfaces of one pod; distinct = (namespace,name)")
	alpha := []string{"a", "b", "-", ".", "0"}
	var comps []string
	var gen func(p string, n int)
	gen = func(p string, n int) {
		if p != "" {
			comps = append(comps, p)
		}
		if n == 0 {
			return
		}
		for _, c := range alpha {
			gen(p+c, n-1)
		}
	}
	gen("", 3)
	long := []string{"kube-system", "default", "coredns-5d78c9869d-abcde", "a-very-long-namespace-name-that-goes-on-and-on-0123456789", "nginx-deployment-66b6c48dd5-4jw2x", "x.y", "x", ".y"}
	comps = append(comps, long...)
	ifs := []string{"", "eth0", "eth1", "eth2", "net1", "e", "a1234"}
	valid := regexp.MustCompile(`^[A-Za-z0-9_.-]+$`)
	names := comps
	nss := comps
	if !ev.Thorough() {
		nss = append([]string{"a", "ab", "a.b", "-"}, long...)
	}
	for _, prefix := range []string{"cali", ""} {
		for _, ns := range nss {
			for _, name := range names {
				seen := map[string]string{}
				for _, ifn := range ifs {
					var got, got2 string
					var err error
					if p, v, _ := ev.Guard(func() {
						got, err = VethNameForPod(name, ns, ifn, prefix)
						got2, _ = VethNameForPod(name, ns, ifn, prefix)
					}); p {
						r.Violate("link.VethNameForPod/panic", fmt.Sprint(v), []string{name, ns, ifn, prefix})
						continue
					}
					rep := []string{name, ns, ifn, prefix}
					if err != nil {
						r.Violate("link.VethNameForPod/error", err.Error(), rep)
					}
					if got != got2 {
						r.Violate("link.VethNameForPod/nondeterministic", fmt.Sprintf("%q vs %q", got, got2), rep)
					}
					if len(got) > 15 {
						r.Violate("link.VethNameForPod/too-long", fmt.Sprintf("%q has %d bytes (IFNAMSIZ allows 15)", got, len(got)), rep)
					}
					if !valid.MatchString(got) {
						r.Violate("link.VethNameForPod/charset", fmt.Sprintf("%q", got), rep)
					}
					key := ifn
					if key == "" {
						key = "eth0" // the primary interface is addressed by "" and by eth0
					}
					if prev, ok := seen[got]; ok && prev != key {
						r.Violate("link.VethNameForPod/collision", fmt.Sprintf("pod %s/%s: interfaces %q and %q both map to %q", ns, name, prev, key, got), rep)
					}
					seen[got] = key
				}
				r.Case(ns+"/"+name, map[string]any{"namespace": ns, "name": name, "names": seen})
			}
		}
	}
}
