//go:build verif

package storage

import (
	"encoding/json"
	"fmt"
	"os"
	"path/filepath"
	"sort"
	"strings"
	"testing"

	"github.com/boltdb/bolt"

	"github.com/AliyunContainerService/terway/internal/verif/ev"
)

type c05Event struct {
	sync bool
	off  int64
	data []byte
	op   int // index of the storage operation in progress
}

func c05Deser(b []byte) (interface{}, error) {
	var s string
	err := json.Unmarshal(b, &s)
	return s, err
}

// TestVerifC05Torn: SIGKILL at an arbitrary instant of bolt's write stream.
func TestVerifC05Torn(t *testing.T) {
	r := ev.New("C05", "bolt-torn-writes")
	defer r.Flush()
	depth := 3
	if ev.Thorough() {
		depth = 5
	}
	r.Rule(fmt.Sprintf("every history of length <=%d over {Put(a), Put(b), Put(a again, new value), Delete(a), Delete(b)} on the real DiskStorage/bolt file, with bolt's page writes and fdatasyncs logged (hooks injected into bolt through -overlay); for EVERY prefix of the write/sync log and EVERY subset of the writes after the last sync dropped (multi-page writes additionally torn after their first page), the file image is materialised and reopened with the real NewDiskStorage; oracle: it opens, load() succeeds and the content equals the state after a prefix of the operation sequence that includes every operation that had returned (acknowledged) before the crash point", depth))
	dir := t.TempDir()
	ops := []string{"put:a:1", "put:b:1", "put:a:2", "del:a", "del:b"}
	var seqs [][]string
	var rec func(cur []string)
	rec = func(cur []string) {
		if len(cur) > 0 {
			seqs = append(seqs, append([]string{}, cur...))
		}
		if len(cur) == depth {
			return
		}
		for _, o := range ops {
			rec(append(cur, o))
		}
	}
	rec(nil)
	images := 0
	for si, seq := range seqs {
		path := filepath.Join(dir, fmt.Sprintf("h%d.db", si))
		st, err := NewDiskStorage("relation", path, json.Marshal, c05Deser)
		if err != nil {
			t.Fatal(err)
		}
		ds := st.(*DiskStorage)
		base, _ := os.ReadFile(path)
		var log []c05Event
		cur := 0
		bolt.VerifWrapWriteAt(ds.db, func(orig func([]byte, int64) (int, error)) func([]byte, int64) (int, error) {
			return func(b []byte, off int64) (int, error) {
				log = append(log, c05Event{off: off, data: append([]byte{}, b...), op: cur})
				return orig(b, off)
			}
		})
		bolt.VerifSyncHook = func() { log = append(log, c05Event{sync: true, op: cur}) }
		// run the history; states[i] = content after i operations; ackedAt[i] = log length when op i returned
		states := []map[string]string{{}}
		var ackedAt []int
		for i, o := range seq {
			cur = i
			f := strings.Split(o, ":")
			next := map[string]string{}
			for k, v := range states[len(states)-1] {
				next[k] = v
			}
			if f[0] == "put" {
				if err := st.Put(f[1], f[2]); err != nil {
					t.Fatal(err)
				}
				next[f[1]] = f[2]
			} else {
				if err := st.Delete(f[1]); err != nil {
					t.Fatal(err)
				}
				delete(next, f[1])
			}
			states = append(states, next)
			ackedAt = append(ackedAt, len(log))
		}
		bolt.VerifSyncHook = nil
		ds.db.Close()
		// enumerate crash images
		for cut := 0; cut <= len(log); cut++ {
			lastSync := -1
			for i := 0; i < cut; i++ {
				if log[i].sync {
					lastSync = i
				}
			}
			var unsynced []int
			for i := lastSync + 1; i < cut; i++ {
				if !log[i].sync {
					unsynced = append(unsynced, i)
				}
			}
			acked := 0
			for i, a := range ackedAt {
				if a <= cut {
					acked = i + 1
				}
			}
			if len(unsynced) > 6 {
				r.NotExhaustive()
				unsynced = unsynced[len(unsynced)-6:]
			}
			// pattern digit per unsynced write: 0 dropped, 1 whole, 2 torn (first page only; only if longer than one page)
			var pat func(i int, choice []int)
			pat = func(i int, choice []int) {
				if i == len(unsynced) {
					img := append([]byte{}, base...)
					apply := func(e c05Event, n int) {
						end := int(e.off) + n
						if end > len(img) {
							img = append(img, make([]byte, end-len(img))...)
						}
						copy(img[e.off:], e.data[:n])
					}
					for k := 0; k <= lastSync; k++ {
						if !log[k].sync {
							apply(log[k], len(log[k].data))
						}
					}
					for k, idx := range unsynced {
						switch choice[k] {
						case 1:
							apply(log[idx], len(log[idx].data))
						case 2:
							apply(log[idx], 4096)
						}
					}
					images++
					ip := filepath.Join(dir, "img.db")
					os.WriteFile(ip, img, 0o600)
					got, oerr := c05Open(ip)
					rep := map[string]any{"history": seq, "log_prefix": cut, "unsynced": len(unsynced), "pattern": append([]int{}, choice...), "acked_ops": acked}
					if oerr != nil {
						r.Violate("storage/crash-image-does-not-open", fmt.Sprintf("history %v, crash after %d of %d write/sync events, pattern %v: %v", seq, cut, len(log), choice, oerr), rep)
					} else {
						okState := false
						for j := acked; j < len(states); j++ {
							if fmt.Sprint(sorted(states[j])) == fmt.Sprint(sorted(got)) {
								okState = true
							}
						}
						if !okState {
							r.Violate("storage/acknowledged-write-lost-or-phantom-state", fmt.Sprintf("history %v, crash after %d of %d events (%d operations had returned), pattern %v: reopened content %v is not the state after any prefix >= the acknowledged one (states %v)", seq, cut, len(log), acked, choice, got, states), rep)
						}
					}
					r.Case(fmt.Sprintf("%d/%d/%v/%v", len(seq), len(unsynced), choice, oerr == nil), rep)
					return
				}
				opts := []int{0, 1}
				if len(log[unsynced[i]].data) > 4096 {
					opts = append(opts, 2)
				}
				for _, c := range opts {
					pat(i+1, append(choice, c))
				}
			}
			pat(0, nil)
		}
		os.Remove(path)
	}
	r.Set("histories", len(seqs))
	r.Set("crash_images", images)
}

func sorted(m map[string]string) []string {
	var out []string
	for k, v := range m {
		out = append(out, k+"="+v)
	}
	sort.Strings(out)
	return out
}

func c05Open(path string) (m map[string]string, err error) {
	defer func() {
		if x := recover(); x != nil {
			err = fmt.Errorf("panic while opening: %v", x)
		}
	}()
	st, err := NewDiskStorage("relation", path, json.Marshal, c05Deser)
	if err != nil {
		return nil, err
	}
	defer st.(*DiskStorage).db.Close()
	l, err := st.List()
	if err != nil {
		return nil, err
	}
	m = map[string]string{}
	// List has no keys: read through Get for the known key space
	_ = l
	for _, k := range []string{"a", "b"} {
		if v, e := st.Get(k); e == nil {
			m[k] = v.(string)
		}
	}
	return m, nil
}
