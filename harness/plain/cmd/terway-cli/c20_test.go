//go:build verif

package main

import (
	"encoding/json"
	"fmt"
	"os"
	"path/filepath"
	"strings"
	"testing"

	"github.com/vishvananda/netlink"

	"github.com/AliyunContainerService/terway/internal/verif/ev"
)

func verifPerms(in []string) [][]string {
	if len(in) <= 1 {
		return [][]string{append([]string{}, in...)}
	}
	var out [][]string
	for i := range in {
		rest := append(append([]string{}, in[:i]...), in[i+1:]...)
		for _, p := range verifPerms(rest) {
			out = append(out, append([]string{in[i]}, p...))
		}
	}
	return out
}

func TestVerifC20Chain(t *testing.T) {
	r := ev.New("C20", "cni-chain")
	defer r.Flush()
	r.Rule("real mergeConfigList over every ordering of every non-empty subset of {terway, cilium-cni, portmap} x eBPF kernel {y,n} x EDT {y,n} x policy provider {absent, iptables, ebpf, wrong type} x virtual type {absent, veth, ipvlan, datapathv2, every one of them also in mixed and upper case, junk, wrong type} x input bandwidth_mode {absent, tc, edt} x network-policy switch x recorded node capabilities {none, chainer true, chainer false} x auto-datapath-v2 seam {y,n} x a cilium_net link {present, absent} (inside a private network namespace; capability file in a temp dir); oracle: valid JSON, plugin order = input order (minus cilium on non-eBPF kernels, plus at most one appended chainer), eniip_virtual_type in {veth, ipvlan, datapathv2} and bandwidth_mode in {edt, tc} whenever present, chainer present whenever eBPF and datapath in {ipvlan, datapathv2}, never present without eBPF")
	dir := t.TempDir()
	nodeCapabilitiesFile = filepath.Join(dir, "node_capabilities")
	names := []string{"terway", "cilium-cni", "portmap"}
	var lists [][]string
	for mask := 1; mask < 8; mask++ {
		var sub []string
		for i, n := range names {
			if mask>>i&1 == 1 {
				sub = append(sub, n)
			}
		}
		lists = append(lists, verifPerms(sub)...)
	}
	vtypes := []string{"", `"veth"`, `"ipvlan"`, `"datapathv2"`, `"IPVlan"`, `"Veth"`, `"DataPathV2"`, `"DATAPATHV2"`, `"IPVLAN"`, `"junk"`, `7`}
	providers := []string{"", `"iptables"`, `"ebpf"`, `7`}
	bws := []string{"", `"tc"`, `"edt"`}
	caps := []string{"", "has_cilium_chainer = true\n", "has_cilium_chainer = false\n"}
	supported := map[string]bool{"veth": true, "ipvlan": true, "datapathv2": true}
	for _, ciliumLink := range []bool{false, true} {
		if l, err := netlink.LinkByName("cilium_net"); err == nil {
			_ = netlink.LinkDel(l)
		}
		if ciliumLink {
			if err := netlink.LinkAdd(&netlink.Veth{LinkAttrs: netlink.LinkAttrs{Name: "cilium_net"}, PeerName: "cilium_host"}); err != nil {
				r.Set("cilium_net_link", "could not be created: "+err.Error())
				r.NotExhaustive()
				continue
			}
		}
		for _, list := range lists {
			for _, ebpf := range []bool{false, true} {
				for _, edt := range []bool{false, true} {
					for _, vt := range vtypes {
						for _, prov := range providers {
							for _, bw := range bws {
								for _, enp := range []bool{false, true} {
									for _, capf := range caps {
										for _, v2 := range []bool{false, true} {
											if !ebpf && (edt || v2) {
												continue
											}
											if capf == "" {
												os.Remove(nodeCapabilitiesFile)
											} else {
												os.WriteFile(nodeCapabilitiesFile, []byte(capf), 0o644)
											}
											_switchDataPathV2 = func() bool { return v2 }
											var configs [][]byte
											for _, n := range list {
												c := map[string]json.RawMessage{"type": json.RawMessage(fmt.Sprintf("%q", n)), "cniVersion": json.RawMessage(`"0.4.0"`), "name": json.RawMessage(`"x"`)}
												if n == "terway" {
													if vt != "" {
														c["eniip_virtual_type"] = json.RawMessage(vt)
													}
													if prov != "" {
														c["network_policy_provider"] = json.RawMessage(prov)
													}
													if bw != "" {
														c["bandwidth_mode"] = json.RawMessage(bw)
													}
												}
												b, _ := json.Marshal(c)
												configs = append(configs, b)
											}
											in := map[string]any{"plugins": list, "ebpf": ebpf, "edt": edt, "virtual_type": vt, "provider": prov, "bandwidth_mode": bw, "enable_policy": enp, "caps": strings.TrimSpace(capf), "auto_v2": v2, "cilium_net": ciliumLink}
											var out string
											var err error
											if p, pv, _ := ev.Guard(func() { out, err = mergeConfigList(configs, &feature{EBPF: ebpf, EDT: edt, EnableNetworkPolicy: enp}) }); p {
												r.Violate("cli.mergeConfigList/panic", fmt.Sprintf("%v: %v", in, pv), in)
												continue
											}
											if err != nil {
												r.Case("rejected/"+vt+"/"+prov, in)
												continue
											}
											var doc struct {
												Plugins []map[string]any `json:"plugins"`
											}
											if jerr := json.Unmarshal([]byte(out), &doc); jerr != nil {
												r.Violate("cli.mergeConfigList/invalid-json", fmt.Sprintf("%v: %v\n%s", in, jerr, out), in)
												continue
											}
											var got []string
											hasChainer := false
											vtOut, bwOut := "", ""
											for _, p := range doc.Plugins {
												ty, _ := p["type"].(string)
												got = append(got, ty)
												if ty == "cilium-cni" {
													hasChainer = true
												}
												if ty == "terway" {
													if v, ok := p["eniip_virtual_type"]; ok {
														vtOut = fmt.Sprint(v)
														if !supported[vtOut] {
															r.Violate("cli.mergeConfigList/unsupported-virtual-type", fmt.Sprintf("%v: eniip_virtual_type %q in the output", in, vtOut), in)
														}
													}
													if v, ok := p["bandwidth_mode"]; ok {
														bwOut = fmt.Sprint(v)
														if bwOut != "edt" && bwOut != "tc" {
															r.Violate("cli.mergeConfigList/unsupported-bandwidth-mode", fmt.Sprintf("%v: bandwidth_mode %q in the output", in, bwOut), in)
														}
													}
												}
											}
											// order
											var want []string
											for _, n := range list {
												if n == "cilium-cni" && !ebpf {
													continue
												}
												want = append(want, n)
											}
											ok := len(got) >= len(want) && len(got) <= len(want)+1
											for i := range want {
												ok = ok && i < len(got) && got[i] == want[i]
											}
											if len(got) == len(want)+1 && got[len(got)-1] != "cilium-cni" {
												ok = false
											}
											if !ok {
												r.Violate("cli.mergeConfigList/plugin-order", fmt.Sprintf("%v: input order %v, output %v", in, list, got), in)
											}
											if !ebpf && hasChainer {
												r.Violate("cli.mergeConfigList/chainer-without-ebpf", fmt.Sprintf("%v: output %v", in, got), in)
											}
											if ebpf && (vtOut == "ipvlan" || vtOut == "datapathv2") && !hasChainer {
												r.Violate("cli.mergeConfigList/chainer-missing", fmt.Sprintf("%v: datapath %s needs the eBPF chainer, output %v", in, vtOut, got), in)
											}
											nchain := 0
											for _, g := range got {
												if g == "cilium-cni" {
													nchain++
												}
											}
											if nchain > 1 {
												r.Violate("cli.mergeConfigList/duplicate-chainer", fmt.Sprintf("%v: output %v", in, got), in)
											}
											r.Case(fmt.Sprintf("%v/%v/%s/%s/%v", got, ebpf, vtOut, bwOut, hasChainer), in)
										}
									}
								}
							}
						}
					}
				}
			}
		}
	}
}
