#!/bin/sh
# Builds the driver and instrumenter and warms go's build cache for every harness (offline).
set -e
cd /verif
export GOFLAGS=-mod=mod GOPROXY=off GOTOOLCHAIN=auto
unset GOSUMDB
mkdir -p bin evidence replays
go build -o bin/vcheck ./cmd/vcheck
if [ -d cmd/instr ]; then go build -o bin/instr ./cmd/instr; fi
./bin/vcheck all --build-only || true
