package main

import "time"

func checks() []check {
	m := time.Minute
	_ = m
	return []check{
		{ID: "C01", Level: "model_checking", Parts: []part{
			{Name: "pool-interleavings", Pkg: "pkg/eni", Run: "^TestVerifC01$", Sets: []string{"weave"}, Weave: []string{"pkg/eni"}, ShardsQ: 16, ShardsT: 16},
		}},
		{ID: "C02", Level: "model_checking", Parts: []part{
			{Name: "node-ipam-bfs", Pkg: "pkg/controller/multi-ip/node", Run: "^TestVerifC02$", Sets: []string{"weave"}, Weave: []string{"pkg/controller/multi-ip/node", "pkg/vswitch"}, NoSubst: "golang.org/x/time/rate.NewLimiter,golang.org/x/time/rate.Limiter", ShardsQ: 16, ShardsT: 16},
		}},
		{ID: "C08", Level: "model_checking", Parts: []part{
			{Name: "node-ipam-quota-convergence", Pkg: "pkg/controller/multi-ip/node", Run: "^TestVerifC08$", Sets: []string{"weave"}, Weave: []string{"pkg/controller/multi-ip/node", "pkg/vswitch"}, NoSubst: "golang.org/x/time/rate.NewLimiter,golang.org/x/time/rate.Limiter", ShardsQ: 16, ShardsT: 16},
		}},
		{ID: "C03", Level: "model_checking", Parts: []part{
			{Name: "reclaim-after-teardown", Pkg: "daemon", Run: "^TestVerifC03$", Sets: []string{"weave"}, Weave: []string{"daemon", "pkg/eni", "pkg/storage", "pkg/controller/multi-ip/node", "pkg/vswitch"}, NoSubst: "golang.org/x/time/rate.NewLimiter,golang.org/x/time/rate.Limiter", Netns: true, ShardsQ: 16, ShardsT: 16},
		}},
		{ID: "C04", Level: "model_checking", Parts: []part{
			{Name: "rpc-interleavings", Pkg: "daemon", Run: "^TestVerifC04$", Sets: []string{"weave"}, Weave: []string{"daemon", "pkg/eni", "pkg/storage"}, ShardsQ: 9, ShardsT: 16},
		}},
		{ID: "C09", Level: "model_checking", Parts: []part{
			{Name: "k8s-client-conformance", Pkg: "pkg/k8s", Run: "^TestVerifC09Client$"},
			{Name: "gc-store-vs-pods", Pkg: "daemon", Run: "^TestVerifC09$", Sets: []string{"weave"}, Weave: []string{"daemon", "pkg/eni", "pkg/storage"}, Netns: true, ShardsQ: 12, ShardsT: 16},
		}},
		{ID: "C05", Level: "fault_enumeration", Parts: []part{
			{Name: "bolt-torn-writes", Pkg: "pkg/storage", Run: "^TestVerifC05Torn$", ModRepl: map[string]string{"github.com/boltdb/bolt@v1.3.1/bolt_linux.go": "harness/modcache/bolt/bolt_linux.go"}},
			{Name: "crash-points", Pkg: "daemon", Run: "^TestVerifC05Crash$", Sets: []string{"weave"}, Weave: []string{"daemon", "pkg/eni", "pkg/storage"}, Netns: true, ShardsQ: 16, ShardsT: 16},
		}},
		{ID: "C06", Level: "model_checking", Parts: []part{
			{Name: "pool-quota-monitor", Pkg: "pkg/eni", Run: "^TestVerifC06$", Sets: []string{"weave"}, Weave: []string{"pkg/eni"}, ShardsQ: 16, ShardsT: 16},
		}},
		{ID: "C07", Level: "model_checking", Parts: []part{
			{Name: "pool-faults", Pkg: "pkg/eni", Run: "^TestVerifC07$", Sets: []string{"weave"}, Weave: []string{"pkg/eni"}, ShardsQ: 10, ShardsT: 15},
		}},
		{ID: "C10", Level: "model_checking", Parts: []part{
			{Name: "podeni-state-machine", Pkg: "pkg/controller/pod-eni", Run: "^TestVerifC10$", Sets: []string{"weave"}, Weave: []string{"pkg/controller/pod", "pkg/controller/pod-eni", "pkg/vswitch"}, ShardsQ: 16, ShardsT: 16},
		}},
		{ID: "C11", Level: "model_checking", Parts: []part{
			{Name: "fixed-ip-and-leak-gc", Pkg: "pkg/controller/pod-eni", Run: "^TestVerifC11$", Sets: []string{"weave"}, Weave: []string{"pkg/controller/pod", "pkg/controller/pod-eni", "pkg/vswitch"}, ShardsQ: 16, ShardsT: 16},
			{Name: "leak-collector-populations", Pkg: "pkg/controller/pod-eni", Run: "^TestVerifC11Leak$", Sets: []string{"weave"}, Weave: []string{"pkg/controller/pod", "pkg/controller/pod-eni", "pkg/vswitch"}, ShardsQ: 8, ShardsT: 16},
		}},
		{ID: "C12", Level: "model_checking", Parts: []part{
			{Name: "podeni-to-netconf", Pkg: "pkg/eni", Run: "^TestVerifC12Remote$"},
			{Name: "default-route-and-primary", Pkg: "daemon", Run: "^TestVerifC12Defaulting$"},
			{Name: "plugin-parse", Pkg: "plugin/terway", Run: "^TestVerifC12Plugin$"},
		}},
		{ID: "C13", Level: "model_checking", Parts: []part{
			{Name: "generated-configuration", Pkg: "plugin/datapath", Run: "^TestVerifC13Config$"},
			{Name: "kernel-policy-route", Pkg: "plugin/datapath", Run: "^TestVerifC13Kernel$", Netns: true, ShardsQ: 12, ShardsT: 16},
			{Name: "kernel-exclusive-eni", Pkg: "plugin/datapath", Run: "^TestVerifC13KernelExclusive$", Netns: true, ShardsQ: 4, ShardsT: 16},
		}},
		{ID: "C14", Level: "model_checking", Parts: []part{
			{Name: "u32v4", Pkg: "pkg/tc", Run: "^TestVerifC14U32v4$"},
			{Name: "u32v6", Pkg: "pkg/tc", Run: "^TestVerifC14U32v6$"},
			{Name: "gateway", Pkg: "pkg/ip", Run: "^TestVerifC14Gateway$"},
			{Name: "vethname", Pkg: "pkg/link", Run: "^TestVerifC14VethName$"},
			{Name: "ipvlan-dst-rule", Pkg: "plugin/datapath", Run: "^TestVerifC14DstRule$"},
		}, Assume: []string{"u32 semantics: a key matches iff ((be32(pkt[off:off+4]) ^ val) & mask) == 0 (net/sched/cls_u32.c); netip.Prefix.Contains is the reference for CIDR membership"}},
		{ID: "C16", Level: "model_checking", Parts: []part{
			{Name: "histories", Pkg: "pkg/aliyun/client", Run: "^TestVerifC16Histories$", Sets: []string{"weave"}, Weave: []string{"pkg/aliyun/client"}},
			{Name: "concurrent", Pkg: "pkg/aliyun/client", Run: "^TestVerifC16Concurrent$", Sets: []string{"weave"}, Weave: []string{"pkg/aliyun/client"}},
			{Name: "tokens-on-the-wire", Pkg: "pkg/aliyun/client", Run: "^TestVerifC16Wire$"},
			{Name: "race-pass", Pkg: "pkg/aliyun/client", Run: "^TestVerifC16Race$", Race: true, Aux: true},
		}},
		{ID: "C17", Level: "model_checking", Parts: []part{
			{Name: "select", Pkg: "pkg/vswitch", Run: "^TestVerifC17Select$", Sets: []string{"weave"}, Weave: []string{"pkg/vswitch"}},
			{Name: "block-history", Pkg: "pkg/vswitch", Run: "^TestVerifC17Block$", Sets: []string{"weave"}, Weave: []string{"pkg/vswitch"}},
			{Name: "concurrent", Pkg: "pkg/vswitch", Run: "^TestVerifC17Concurrent$", Sets: []string{"weave"}, Weave: []string{"pkg/vswitch"}},
			{Name: "race-pass", Pkg: "pkg/vswitch", Run: "^TestVerifC17Race$", Race: true, Aux: true},
		}},
		{ID: "C15", Level: "model_checking", Parts: []part{
			{Name: "bandwidth", Pkg: "pkg/k8s", Run: "^TestVerifC15Bandwidth$"},
			{Name: "numa-hints", Pkg: "pkg/controller/pod-eni", Run: "^TestVerifC15Numa$"},
			{Name: "webhook-annotations", Pkg: "pkg/controller/webhook", Run: "^TestVerifC15Webhook$"},
			{Name: "cni-configuration", Pkg: "plugin/terway", Run: "^TestVerifC15CNI$"},
			{Name: "configmap-documents", Pkg: "daemon", Run: "^TestVerifC15Config$"},
			{Name: "stored-records", Pkg: "daemon", Run: "^TestVerifC15Records$", Sets: []string{"weave"}, Weave: []string{"daemon", "pkg/eni", "pkg/storage"}, Netns: true, ShardsQ: 8, ShardsT: 8},
		}},
		{ID: "C18", Level: "model_checking", Parts: []part{
			{Name: "admission", Pkg: "pkg/controller/webhook", Run: "^TestVerifC18$"},
		}},
		{ID: "C19", Level: "model_checking", Parts: []part{
			{Name: "instance-limits", Pkg: "pkg/aliyun/client", Run: "^TestVerifC19Limits$"},
			{Name: "daemon-pool-config", Pkg: "daemon", Run: "^TestVerifC19PoolConfig$"},
			{Name: "node-cr-flavor", Pkg: "pkg/eni", Run: "^TestVerifC19Flavor$"},
			{Name: "node-advertisement", Pkg: "pkg/controller/node", Run: "^TestVerifC19Advertised$"},
		}},
		{ID: "C20", Level: "model_checking", Parts: []part{
			{Name: "config-merge", Pkg: "types/daemon", Run: "^TestVerifC20Merge$"},
			{Name: "cni-chain", Pkg: "cmd/terway-cli", Run: "^TestVerifC20Chain$", Netns: true, Patch: [][3]string{{"cmd/terway-cli/node.go", "const nodeCapabilitiesFile =", "var nodeCapabilitiesFile ="}}},
		}},
	}
}
