// vcheck is the driver of every registered check: it builds the harness of one property from
// /repo's *current working tree* (through go's -overlay, so /repo is never written), runs it
// (optionally sharded over processes, optionally inside a private network namespace), merges the
// parts the harness wrote, applies /verif/known_findings.json and writes /verif/evidence/<id>.json.
//
// exit 0: property held on everything explored (KNOWN-FINDING lines may be printed)
// exit 1: "VIOLATION property=<id> replay=<path>" printed for every new violation class
// exit 2: the harness itself failed (build error, crash, timeout) — never reported as a violation
package main

import (
	"crypto/sha1"
	"encoding/json"
	"flag"
	"fmt"
	"os"
	"os/exec"
	"path/filepath"
	"regexp"
	"sort"
	"strconv"
	"strings"
	"sync"
	"time"
)

const (
	repo  = "/repo"
	verif = "/verif"
	mod   = "github.com/AliyunContainerService/terway"
)

type part struct {
	Name    string   // part name as written by the harness (ev.New(id, Name))
	Pkg     string   // package dir relative to /repo
	Run     string   // -run regexp
	Sets    []string // harness sets (dirs under /verif/harness) to inject; default {"plain"}
	Weave   []string // packages (relative dirs, or module-cache import paths) to instrument
	Netns   bool     // run the test binary under `unshare -n`
	ShardsQ int      // worker processes, quick
	ShardsT int      // worker processes, thorough
	TimeQ   time.Duration
	TimeT   time.Duration
	Race    bool              // build with -race (free-running pass)
	Tags    string            // extra build tags
	Env     []string          // extra env
	OnlyT   bool              // part runs in the thorough tier only
	Aux     bool              // auxiliary sampled pass (free-running -race): reported per part, not folded into the check's exhaustive flag
	NoSubst string            // passed to the instrumenter as -nosubst
	Patch   [][3]string       // {file relative to /repo, old, new}: the CURRENT file with one textual seam replacement is put in its place through the overlay (old must occur exactly once)
	ModRepl map[string]string // module-cache file (relative to GOMODCACHE) -> file under /verif to put in its place through the overlay
}

type check struct {
	ID     string
	Level  string
	Parts  []part
	Assume []string
}

type violation struct {
	Sig    string `json:"sig"`
	Detail string `json:"detail"`
	Replay any    `json:"replay"`
	Count  int64  `json:"count"`
}

type partOut struct {
	Property    string         `json:"property"`
	Part        string         `json:"part"`
	Evaluations int64          `json:"evaluations"`
	Distinct    int64          `json:"distinct_nontrivial"`
	States      int64          `json:"states"`
	Transitions int64          `json:"transitions"`
	Traces      int64          `json:"traces_validated_against_impl"`
	Rule        string         `json:"rule"`
	Samples     []any          `json:"samples"`
	Exhaustive  bool           `json:"exhaustive"`
	Violations  []violation    `json:"violations"`
	Extra       map[string]any `json:"extra"`
	Assumptions []string       `json:"assumptions"`
	WallS       float64        `json:"wall_s"`
	Complete    bool           `json:"complete"`
}

type knownFile struct {
	Known []struct {
		Property string `json:"property"`
		SigRegex string `json:"sig_regex"`
		What     string `json:"what"`
	} `json:"known"`
	Fixed []string `json:"fixed"`
}

func fatal(code int, f string, a ...any) {
	fmt.Fprintf(os.Stderr, f+"\n", a...)
	os.Exit(code)
}

func goEnv() []string {
	var env []string
	for _, e := range os.Environ() {
		if strings.HasPrefix(e, "GOSUMDB=") || strings.HasPrefix(e, "GOFLAGS=") || strings.HasPrefix(e, "GOTOOLCHAIN=") || strings.HasPrefix(e, "GOPROXY=") {
			continue
		}
		env = append(env, e)
	}
	return append(env, "GOFLAGS=-mod=mod", "GOPROXY=off", "GOTOOLCHAIN=auto", "CGO_ENABLED=1")
}

func main() {
	tier := flag.String("tier", "", "quick|thorough")
	replay := flag.String("replay", "", "replay file")
	keep := flag.Bool("keep", false, "keep work dir")
	buildOnly := flag.Bool("build-only", false, "only build the harness binaries (setup)")
	list := flag.Bool("list", false, "list checks")
	flag.Usage = func() { fmt.Fprintln(os.Stderr, "usage: vcheck [flags] <ID>") }
	// allow "vcheck C01 --tier quick"
	args := os.Args[1:]
	var id string
	var rest []string
	for _, a := range args {
		if !strings.HasPrefix(a, "-") && id == "" && regexp.MustCompile(`^C\d+$|^all$`).MatchString(a) {
			id = a
		} else {
			rest = append(rest, a)
		}
	}
	flag.CommandLine.Parse(rest)
	if *list {
		for _, c := range checks() {
			fmt.Println(c.ID)
		}
		return
	}
	if *tier == "" {
		*tier = os.Getenv("VERIF_TIER")
	}
	if *tier != "thorough" {
		*tier = "quick"
	}
	if id == "all" && *buildOnly {
		for _, c := range checks() {
			runCheck(c, *tier, "", false, true)
		}
		return
	}
	for _, c := range checks() {
		if c.ID == id {
			os.Exit(runCheck(c, *tier, *replay, *keep, *buildOnly))
		}
	}
	fatal(2, "unknown check %q", id)
}

func runCheck(c check, tier, replay string, keep, buildOnly bool) int {
	start := time.Now()
	seed, _ := strconv.Atoi(os.Getenv("VERIF_SEED"))
	work := filepath.Join(verif, ".work", c.ID+"-"+tier)
	if buildOnly {
		work = filepath.Join(verif, ".work", c.ID+"-build")
	}
	os.RemoveAll(work)
	out := filepath.Join(work, "out")
	if err := os.MkdirAll(out, 0o755); err != nil {
		fatal(2, "%v", err)
	}
	if !keep {
		defer os.RemoveAll(work)
	}
	evFile := filepath.Join(verif, "evidence", c.ID+".json")
	if !buildOnly {
		os.Remove(evFile)
	}

	type built struct {
		p   part
		bin string
	}
	var bins []built
	for i, p := range c.Parts {
		if p.OnlyT && tier != "thorough" && !buildOnly {
			continue
		}
		ov, err := makeOverlay(work, i, p)
		if err != nil {
			fmt.Printf("HARNESS-ERROR property=%s part=%s overlay: %v\n", c.ID, p.Name, err)
			return 2
		}
		bin := filepath.Join(work, fmt.Sprintf("p%d.test", i))
		tags := "default_build,verif"
		if p.Tags != "" {
			tags += "," + p.Tags
		}
		a := []string{"test", "-c", "-o", bin, "-tags", tags, "-overlay", ov, "-vet=off"}
		if p.Race {
			a = append(a, "-race")
		}
		a = append(a, "./"+p.Pkg)
		cmd := exec.Command("go", a...)
		cmd.Dir = repo
		cmd.Env = goEnv()
		b, err := cmd.CombinedOutput()
		if err != nil {
			fmt.Printf("HARNESS-ERROR property=%s part=%s build failed:\n%s\n", c.ID, p.Name, tail(string(b), 6000))
			return 2
		}
		bins = append(bins, built{p, bin})
	}
	if buildOnly {
		os.RemoveAll(work)
		return 0
	}

	// run
	var mu sync.Mutex
	failed := false
	var wg sync.WaitGroup
	sem := make(chan struct{}, 16)
	for _, b := range bins {
		n := b.p.ShardsQ
		to := b.p.TimeQ
		if tier == "thorough" {
			n, to = b.p.ShardsT, b.p.TimeT
		}
		if n <= 0 {
			n = 1
		}
		if to == 0 {
			to = 10 * time.Minute
			if tier == "thorough" {
				to = 60 * time.Minute
			}
		}
		for s := 0; s < n; s++ {
			wg.Add(1)
			sem <- struct{}{}
			go func(b built, s, n int) {
				defer wg.Done()
				defer func() { <-sem }()
				args := []string{"-test.run", b.p.Run, "-test.timeout", (to + time.Minute).String(), "-test.count", "1"}
				if os.Getenv("VERIF_VERBOSE") != "" {
					args = append(args, "-test.v")
				}
				name := b.bin
				if b.p.Netns {
					args = append([]string{"-n", "--", b.bin}, args...)
					name = "unshare"
				}
				cmd := exec.Command(name, args...)
				cmd.Dir = filepath.Join(repo, b.p.Pkg)
				cmd.Env = append(goEnv(), "VERIF_OUT="+out, "VERIF_TIER="+tier, "VERIF_SEED="+strconv.Itoa(seed),
					"VERIF_SHARD="+strconv.Itoa(s), "VERIF_SHARDS="+strconv.Itoa(n), "VERIF_WORK="+work,
					"VERIF_DEADLINE_S="+strconv.Itoa(int(to.Seconds())))
				if replay != "" {
					cmd.Env = append(cmd.Env, "VERIF_REPLAY="+replay)
				}
				cmd.Env = append(cmd.Env, b.p.Env...)
				logf := filepath.Join(work, fmt.Sprintf("%s.%d.log", b.p.Name, s))
				lf, _ := os.Create(logf)
				cmd.Stdout, cmd.Stderr = lf, lf
				err := cmd.Run()
				lf.Close()
				if err != nil {
					bs, _ := os.ReadFile(logf)
					mu.Lock()
					failed = true
					fmt.Printf("HARNESS-ERROR property=%s part=%s shard=%d: %v\n%s\n", c.ID, b.p.Name, s, err, tail(string(bs), 8000))
					mu.Unlock()
				} else if os.Getenv("VERIF_VERBOSE") != "" {
					bs, _ := os.ReadFile(logf)
					mu.Lock()
					fmt.Println(tail(string(bs), 20000))
					mu.Unlock()
				}
			}(b, s, n)
		}
	}
	wg.Wait()
	if failed {
		return 2
	}

	// merge
	files, _ := filepath.Glob(filepath.Join(out, "*.json"))
	sort.Strings(files)
	var parts []partOut
	for _, f := range files {
		var po partOut
		b, _ := os.ReadFile(f)
		if err := json.Unmarshal(b, &po); err != nil {
			fmt.Printf("HARNESS-ERROR property=%s bad part file %s: %v\n", c.ID, f, err)
			return 2
		}
		if !po.Complete || po.Property != c.ID {
			fmt.Printf("HARNESS-ERROR property=%s incomplete part %s\n", c.ID, f)
			return 2
		}
		parts = append(parts, po)
	}
	// every expected part must have reported
	seen := map[string]int{}
	for _, p := range parts {
		seen[p.Part]++
	}
	for _, b := range bins {
		if seen[b.p.Name] == 0 {
			fmt.Printf("HARNESS-ERROR property=%s part %s wrote no result\n", c.ID, b.p.Name)
			return 2
		}
	}

	auxPart := map[string]bool{}
	for _, b := range bins {
		auxPart[b.p.Name] = b.p.Aux
	}
	cov := map[string]any{}
	var evals, distinct, states, trans, traces int64
	exhaustive := true
	var rules []string
	var samples []any
	perPart := []any{}
	assume := append([]string{}, c.Assume...)
	vios := map[string]*violation{}
	ruleSeen := map[string]bool{}
	for _, p := range parts {
		evals += p.Evaluations
		distinct += p.Distinct
		states += p.States
		trans += p.Transitions
		traces += p.Traces
		if !auxPart[p.Part] {
			exhaustive = exhaustive && p.Exhaustive
		}
		if p.Rule != "" && !ruleSeen[p.Part] {
			ruleSeen[p.Part] = true
			rules = append(rules, p.Part+": "+p.Rule)
		}
		for _, s := range p.Samples {
			if len(samples) < 16 {
				samples = append(samples, map[string]any{"part": p.Part, "case": s})
			}
		}
		for _, a := range p.Assumptions {
			dup := false
			for _, x := range assume {
				dup = dup || x == a
			}
			if !dup {
				assume = append(assume, a)
			}
		}
		perPart = append(perPart, map[string]any{"part": p.Part, "evaluations": p.Evaluations, "distinct_nontrivial": p.Distinct,
			"states": p.States, "transitions": p.Transitions, "exhaustive": p.Exhaustive, "wall_s": p.WallS, "extra": p.Extra})
		for _, v := range p.Violations {
			v := v
			if o, ok := vios[v.Sig]; ok {
				o.Count += v.Count
			} else {
				vios[v.Sig] = &v
			}
		}
	}
	cov["evaluations"] = evals
	cov["distinct_nontrivial"] = distinct
	cov["rule"] = strings.Join(rules, " | ")
	cov["samples"] = samples
	cov["exhaustive"] = exhaustive
	cov["parts"] = perPart
	if states > 0 && trans > 0 {
		cov["states"] = states
		cov["transitions"] = trans
		cov["traces_validated_against_impl"] = traces
	}

	// known findings
	var kf knownFile
	if b, err := os.ReadFile(filepath.Join(verif, "known_findings.json")); err == nil {
		if err := json.Unmarshal(b, &kf); err != nil {
			fmt.Printf("HARNESS-ERROR bad known_findings.json: %v\n", err)
			return 2
		}
	}
	sigs := make([]string, 0, len(vios))
	for s := range vios {
		sigs = append(sigs, s)
	}
	sort.Strings(sigs)
	newV := 0
	knownHit := []string{}
	os.MkdirAll(filepath.Join(verif, "replays", c.ID), 0o755)
	for _, s := range sigs {
		v := vios[s]
		matched := ""
		for _, k := range kf.Known {
			if k.Property != c.ID {
				continue
			}
			if ok, _ := regexp.MatchString("^(?:"+k.SigRegex+")$", s); ok {
				matched = k.What
				break
			}
		}
		if matched != "" {
			fmt.Printf("KNOWN-FINDING: property=%s %s [sig=%s cases=%d]\n", c.ID, matched, s, v.Count)
			knownHit = append(knownHit, s)
			continue
		}
		newV++
		h := sha1.Sum([]byte(s))
		rp := filepath.Join(verif, "replays", c.ID, fmt.Sprintf("%x.json", h[:6]))
		rb, _ := json.MarshalIndent(map[string]any{"property": c.ID, "sig": s, "detail": v.Detail, "replay": v.Replay, "tier": tier}, "", " ")
		os.WriteFile(rp, rb, 0o644)
		fmt.Printf("VIOLATION property=%s replay=%s\n  sig: %s\n  %s\n", c.ID, rp, s, firstLines(v.Detail, 12))
	}
	cov["known_findings_hit"] = knownHit

	evd := map[string]any{
		"property_id": c.ID, "tier": tier, "seed": seed, "level": c.Level, "coverage": cov,
		"assumptions": assume, "wall_s": time.Since(start).Seconds(), "violations": newV,
	}
	eb, _ := json.MarshalIndent(evd, "", " ")
	os.MkdirAll(filepath.Join(verif, "evidence"), 0o755)
	if err := os.WriteFile(evFile, eb, 0o644); err != nil {
		fatal(2, "%v", err)
	}
	fmt.Printf("property=%s tier=%s evaluations=%d distinct=%d states=%d transitions=%d exhaustive=%v violations=%d known=%d wall=%.1fs\n",
		c.ID, tier, evals, distinct, states, trans, exhaustive, newV, len(knownHit), time.Since(start).Seconds())
	if newV > 0 {
		return 1
	}
	return 0
}

func tail(s string, n int) string {
	if len(s) > n {
		return "…" + s[len(s)-n:]
	}
	return s
}
func firstLines(s string, n int) string {
	l := strings.Split(s, "\n")
	if len(l) > n {
		l = l[:n]
	}
	return strings.Join(l, "\n  ")
}

// makeOverlay writes overlay.json for one part: virtual packages, harness files, instrumented
// copies of the packages named in p.Weave (produced by the instrumenter at this moment from the
// current /repo sources).
func makeOverlay(work string, idx int, p part) (string, error) {
	replace := map[string]string{}
	// virtual packages
	vp, _ := filepath.Glob(filepath.Join(verif, "vpkg", "*"))
	for _, d := range vp {
		fs, _ := filepath.Glob(filepath.Join(d, "*.go"))
		for _, f := range fs {
			replace[filepath.Join(repo, "internal", "verif", filepath.Base(d), filepath.Base(f))] = f
		}
	}
	sets := p.Sets
	if len(sets) == 0 {
		sets = []string{"plain"}
	}
	for _, set := range sets {
		root := filepath.Join(verif, "harness", set)
		err := filepath.Walk(root, func(path string, info os.FileInfo, err error) error {
			if err != nil || info.IsDir() || !strings.HasSuffix(path, ".go") {
				return err
			}
			rel, _ := filepath.Rel(root, path)
			dir, base := filepath.Split(rel)
			replace[filepath.Join(repo, dir, "zz_verif_"+base)] = path
			return nil
		})
		if err != nil {
			return "", fmt.Errorf("harness set %s: %w", set, err)
		}
	}
	for i, ps := range p.Patch {
		src := filepath.Join(repo, ps[0])
		b, err := os.ReadFile(src)
		if err != nil {
			return "", err
		}
		if strings.Count(string(b), ps[1]) != 1 {
			return "", fmt.Errorf("seam patch for %s: %q occurs %d times in the current source (expected once)", ps[0], ps[1], strings.Count(string(b), ps[1]))
		}
		dst := filepath.Join(work, fmt.Sprintf("patch%d_%d_%s", idx, i, filepath.Base(ps[0])))
		if err := os.WriteFile(dst, []byte(strings.Replace(string(b), ps[1], ps[2], 1)), 0o644); err != nil {
			return "", err
		}
		replace[src] = dst
	}
	if len(p.ModRepl) > 0 {
		out, err := exec.Command("go", "env", "GOMODCACHE").Output()
		if err != nil {
			return "", err
		}
		mc := strings.TrimSpace(string(out))
		for rel, f := range p.ModRepl {
			if _, err := os.Stat(filepath.Join(mc, rel)); err != nil {
				return "", fmt.Errorf("module cache file %s: %w", rel, err)
			}
			replace[filepath.Join(mc, rel)] = filepath.Join(verif, f)
		}
	}
	if len(p.Weave) > 0 {
		wdir := filepath.Join(work, fmt.Sprintf("weave%d", idx))
		a := []string{"-out", wdir}
		if p.NoSubst != "" {
			a = append(a, "-nosubst", p.NoSubst)
		}
		a = append(a, p.Weave...)
		cmd := exec.Command(filepath.Join(verif, "bin", "instr"), a...)
		cmd.Dir = repo
		cmd.Env = goEnv()
		b, err := cmd.CombinedOutput()
		if err != nil {
			return "", fmt.Errorf("instrumenter: %v\n%s", err, tail(string(b), 6000))
		}
		var m map[string]string
		mb, err := os.ReadFile(filepath.Join(wdir, "replace.json"))
		if err != nil {
			return "", err
		}
		if err := json.Unmarshal(mb, &m); err != nil {
			return "", err
		}
		for k, v := range m {
			replace[k] = v
		}
	}
	ov := filepath.Join(work, fmt.Sprintf("overlay%d.json", idx))
	b, _ := json.MarshalIndent(map[string]any{"Replace": replace}, "", " ")
	return ov, os.WriteFile(ov, b, 0o644)
}
