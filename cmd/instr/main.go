// instr is engine A's source-to-source instrumenter. For every package given on the command line
// it type-checks the package's *current* sources (go/types over the toolchain's export data),
// rewrites every synchronisation / environment operation into a call of the cooperative runtime
// (internal/verif/rt, injected by -overlay) and writes the rewritten files plus a replace.json
// (original path -> rewritten path) that the driver merges into its overlay. /repo is not touched.
//
// It fails loudly when a construct it must handle is left unhandled.
package main

import (
	"bytes"
	"encoding/json"
	"flag"
	"fmt"
	"go/ast"
	"go/importer"
	"go/parser"
	"go/printer"
	"go/token"
	"go/types"
	"io"
	"os"
	"os/exec"
	"path/filepath"
	"reflect"
	"sort"
	"strings"
)

const rtPath = "github.com/AliyunContainerService/terway/internal/verif/rt"
const rtName = "vrt"

// (import path, name) -> name in package rt
var subst = map[[2]string]string{
	{"sync", "Mutex"}: "Mutex", {"sync", "RWMutex"}: "RWMutex", {"sync", "Cond"}: "Cond", {"sync", "NewCond"}: "NewCond",
	{"sync", "WaitGroup"}: "WaitGroup", {"sync", "Once"}: "Once", {"sync", "Map"}: "Map",
	{"time", "Now"}: "TimeNow", {"time", "Since"}: "TimeSince", {"time", "Until"}: "TimeUntil", {"time", "Sleep"}: "TimeSleep",
	{"time", "After"}: "TimeAfter", {"time", "AfterFunc"}: "TimeAfterFunc", {"time", "NewTimer"}: "NewTimer", {"time", "Timer"}: "Timer",
	{"context", "WithTimeout"}: "CtxWithTimeout", {"context", "WithDeadline"}: "CtxWithDeadline",
	{"k8s.io/apimachinery/pkg/util/wait", "JitterUntil"}:                   "WaitJitterUntil",
	{"k8s.io/apimachinery/pkg/util/wait", "Until"}:                         "WaitUntil",
	{"k8s.io/apimachinery/pkg/util/wait", "JitterUntilWithContext"}:        "WaitJitterUntilWithContext",
	{"k8s.io/apimachinery/pkg/util/wait", "UntilWithContext"}:              "WaitUntilWithContext",
	{"k8s.io/apimachinery/pkg/util/wait", "Jitter"}:                        "WaitJitter",
	{"k8s.io/apimachinery/pkg/util/wait", "ExponentialBackoffWithContext"}: "WaitExponentialBackoffWithContext",
	{"k8s.io/apimachinery/pkg/util/wait", "PollUntilContextCancel"}:        "WaitPollUntilContextCancel",
	{"k8s.io/apimachinery/pkg/util/wait", "PollUntilContextTimeout"}:       "WaitPollUntilContextTimeout",
	{"k8s.io/apimachinery/pkg/util/wait", "Group"}:                         "WaitGroupK8s",
	{"golang.org/x/time/rate", "NewLimiter"}:                               "NewRateLimiter",
	{"golang.org/x/time/rate", "Limiter"}:                                  "RateLimiter",
	{"math/rand", "Shuffle"}:                                               "RandShuffle", {"math/rand", "Intn"}: "RandIntn",
	{"k8s.io/utils/lru", "New"}: "NewLRU", {"k8s.io/utils/lru", "Cache"}: "LRU",
	{"golang.org/x/sync/singleflight", "Group"}:                 "SFGroup",
	{"golang.org/x/sync/errgroup", "Group"}:                     "ErrGroup",
	{"golang.org/x/sync/errgroup", "WithContext"}:               "ErrGroupWithContext",
	{"k8s.io/apimachinery/pkg/util/cache", "NewLRUExpireCache"}: "NewExpireCache",
	{"k8s.io/apimachinery/pkg/util/cache", "LRUExpireCache"}:    "ExpireCache",
	{"k8s.io/apimachinery/pkg/apis/meta/v1", "Now"}:             "MetaNow",
	{"github.com/samber/lo", "Keys"}:                            "LoKeys", {"github.com/samber/lo", "Values"}: "LoValues",
	{"github.com/samber/lo", "PickBy"}: "LoPickBy", {"github.com/samber/lo", "FindKeyBy"}: "LoFindKeyBy",
	{"github.com/samber/lo", "MapToSlice"}: "LoMapToSlice",
	{"github.com/samber/lo", "OmitBy"}:     "LoOmitBy", {"github.com/samber/lo", "MapValues"}: "LoMapValues",
	{"github.com/samber/lo", "MapKeys"}: "LoMapKeys", {"github.com/samber/lo", "MapEntries"}: "LoMapEntries",
}

type listPkg struct {
	ImportPath   string
	Dir          string
	Export       string
	GoFiles      []string
	CgoFiles     []string
	TestGoFiles  []string
	XTestGoFiles []string
	Name         string
	ForTest      string
}

func die(f string, a ...any) { fmt.Fprintf(os.Stderr, "instr: "+f+"\n", a...); os.Exit(1) }

func main() {
	out := flag.String("out", "", "output dir")
	tags := flag.String("tags", "default_build,verif", "build tags")
	nosub := flag.String("nosubst", "", "comma separated importpath.Name entries that are NOT redirected in this run (values flow into uninstrumented library types)")
	flag.Parse()
	for _, e := range strings.Split(*nosub, ",") {
		if i := strings.LastIndex(e, "."); i > 0 {
			delete(subst, [2]string{e[:i], e[i+1:]})
		}
	}
	if *out == "" || flag.NArg() == 0 {
		die("usage: instr -out DIR pkg...")
	}
	os.MkdirAll(*out, 0o755)
	var targets []string
	for _, a := range flag.Args() {
		if !strings.Contains(a, ".") && !strings.HasPrefix(a, "./") {
			a = "./" + a
		}
		targets = append(targets, a)
	}
	args := append([]string{"list", "-export", "-deps", "-json=ImportPath,Dir,Export,GoFiles,CgoFiles,TestGoFiles,XTestGoFiles,Name,ForTest", "-tags", *tags}, targets...)
	cmd := exec.Command("go", args...)
	cmd.Stderr = os.Stderr
	b, err := cmd.Output()
	if err != nil {
		die("go list: %v", err)
	}
	pkgs := map[string]*listPkg{}
	dec := json.NewDecoder(bytes.NewReader(b))
	for {
		var p listPkg
		if err := dec.Decode(&p); err == io.EOF {
			break
		} else if err != nil {
			die("go list json: %v", err)
		}
		pp := p
		pkgs[p.ImportPath] = &pp
	}
	// resolve target import paths
	cmd = exec.Command("go", append([]string{"list", "-tags", *tags}, targets...)...)
	cmd.Stderr = os.Stderr
	b, err = cmd.Output()
	if err != nil {
		die("go list targets: %v", err)
	}
	replace := map[string]string{}
	fset := token.NewFileSet()
	imp := importer.ForCompiler(fset, "gc", func(path string) (io.ReadCloser, error) {
		p := pkgs[path]
		if p == nil || p.Export == "" {
			return nil, fmt.Errorf("no export data for %q", path)
		}
		return os.Open(p.Export)
	})
	stats := map[string]int{}
	for _, ip := range strings.Fields(string(b)) {
		p := pkgs[ip]
		if p == nil {
			die("target %s not in go list output", ip)
		}
		if len(p.CgoFiles) > 0 {
			die("%s uses cgo: unsupported", ip)
		}
		instrumentPkg(fset, imp, p, *out, replace, stats)
	}
	rb, _ := json.MarshalIndent(replace, "", " ")
	if err := os.WriteFile(filepath.Join(*out, "replace.json"), rb, 0o644); err != nil {
		die("%v", err)
	}
	var keys []string
	for k := range stats {
		keys = append(keys, k)
	}
	sort.Strings(keys)
	for _, k := range keys {
		fmt.Printf("%s=%d ", k, stats[k])
	}
	fmt.Println()
}

type rangeKind int

const (
	rkNone rangeKind = iota
	rkChan
	rkMap
)

type rewriter struct {
	info     *types.Info
	fset     *token.FileSet
	stats    map[string]int
	n        int
	usedRT   bool
	recv2    map[*ast.UnaryExpr]bool // v, ok := <-ch
	native   map[ast.Node]bool       // comm ops of select clauses: stay native
	rk       map[*ast.RangeStmt]rangeKind
	isClose  map[*ast.CallExpr]bool
	isCancel map[*ast.CallExpr]bool
	noHoist  map[ast.Expr]bool // constants / nil: must not be hoisted into a := temp
	goArgs   map[*ast.GoStmt][]bool
	selLabel map[*ast.SelectStmt]*ast.LabeledStmt
	substSel map[*ast.SelectorExpr]string
	pkgUses  map[*types.PkgName]int // remaining (unsubstituted) uses
	errs     []string
}

func (r *rewriter) tmp(p string) *ast.Ident {
	r.n++
	return ast.NewIdent(fmt.Sprintf("_v%s%d", p, r.n))
}
func (r *rewriter) rt(name string) ast.Expr {
	r.usedRT = true
	return &ast.SelectorExpr{X: ast.NewIdent(rtName), Sel: ast.NewIdent(name)}
}
func call(f ast.Expr, args ...ast.Expr) *ast.CallExpr { return &ast.CallExpr{Fun: f, Args: args} }
func define(lhs []ast.Expr, rhs ...ast.Expr) *ast.AssignStmt {
	return &ast.AssignStmt{Lhs: lhs, Tok: token.DEFINE, Rhs: rhs}
}
func isBlank(e ast.Expr) bool {
	id, ok := e.(*ast.Ident)
	return e == nil || (ok && id.Name == "_")
}

func instrumentPkg(fset *token.FileSet, imp types.Importer, p *listPkg, out string, replace map[string]string, stats map[string]int) {
	var files []*ast.File
	var paths []string
	for _, f := range p.GoFiles {
		path := filepath.Join(p.Dir, f)
		af, err := parseFile(fset, path)
		if err != nil {
			die("parse %s: %v", path, err)
		}
		files = append(files, af)
		paths = append(paths, path)
	}
	info := &types.Info{Types: map[ast.Expr]types.TypeAndValue{}, Uses: map[*ast.Ident]types.Object{}, Defs: map[*ast.Ident]types.Object{}, Selections: map[*ast.SelectorExpr]*types.Selection{}, Implicits: map[ast.Node]types.Object{}}
	var terrs []string
	conf := types.Config{Importer: imp, Error: func(err error) { terrs = append(terrs, err.Error()) }}
	_, _ = conf.Check(p.ImportPath, fset, files, info)
	if len(terrs) > 0 {
		die("type errors in %s (the tree does not compile?):\n%s", p.ImportPath, strings.Join(terrs[:min(len(terrs), 10)], "\n"))
	}
	dir := filepath.Join(out, strings.ReplaceAll(p.ImportPath, "/", "_"))
	os.MkdirAll(dir, 0o755)
	for i, f := range files {
		r := &rewriter{info: info, fset: fset, stats: stats, recv2: map[*ast.UnaryExpr]bool{}, native: map[ast.Node]bool{}, rk: map[*ast.RangeStmt]rangeKind{},
			isClose: map[*ast.CallExpr]bool{}, isCancel: map[*ast.CallExpr]bool{}, noHoist: map[ast.Expr]bool{}, goArgs: map[*ast.GoStmt][]bool{},
			selLabel: map[*ast.SelectStmt]*ast.LabeledStmt{}, substSel: map[*ast.SelectorExpr]string{}, pkgUses: map[*types.PkgName]int{}}
		r.classify(f)
		header := buildHeader(f)
		f.Comments = nil
		f.Doc = nil
		r.rewrite(reflect.ValueOf(&f).Elem())
		if len(r.errs) > 0 {
			die("%s: %s", paths[i], strings.Join(r.errs, "; "))
		}
		r.fixImports(f)
		r.verify(f, paths[i])
		var buf bytes.Buffer
		buf.WriteString(header)
		if err := printer.Fprint(&buf, token.NewFileSet(), f); err != nil {
			die("print %s: %v", paths[i], err)
		}
		op := filepath.Join(dir, filepath.Base(paths[i]))
		if err := os.WriteFile(op, buf.Bytes(), 0o644); err != nil {
			die("%v", err)
		}
		replace[paths[i]] = op
	}
	// upstream tests of an instrumented package no longer type-check against rewritten signatures
	stub := func(name, pkgName string) {
		op := filepath.Join(dir, "stub_"+name)
		os.WriteFile(op, []byte("package "+pkgName+"\n"), 0o644)
		replace[filepath.Join(p.Dir, name)] = op
	}
	for _, t := range p.TestGoFiles {
		stub(t, p.Name)
	}
	for _, t := range p.XTestGoFiles {
		stub(t, p.Name+"_test")
	}
	// also tests hidden behind the listing (go list of a non-test package gives TestGoFiles only for matching constraints)
	ents, _ := os.ReadDir(p.Dir)
	for _, e := range ents {
		n := e.Name()
		if strings.HasSuffix(n, "_test.go") {
			if _, ok := replace[filepath.Join(p.Dir, n)]; !ok {
				b, _ := os.ReadFile(filepath.Join(p.Dir, n))
				pn := p.Name
				if bytes.Contains(b, []byte("\npackage "+p.Name+"_test")) || bytes.HasPrefix(b, []byte("package "+p.Name+"_test")) {
					pn = p.Name + "_test"
				}
				// keep the file's own build constraints out: an empty file with just a package clause is always valid
				stub(n, pn)
			}
		}
	}
}

func buildHeader(f *ast.File) string {
	var b strings.Builder
	for _, cg := range f.Comments {
		if cg.Pos() >= f.Package {
			break
		}
		for _, c := range cg.List {
			if strings.HasPrefix(c.Text, "//go:build") || strings.HasPrefix(c.Text, "// +build") {
				b.WriteString(c.Text + "\n")
			}
		}
	}
	if b.Len() > 0 {
		b.WriteString("\n")
	}
	// other directives are not supported in instrumented files
	for _, cg := range f.Comments {
		for _, c := range cg.List {
			if strings.HasPrefix(c.Text, "//go:embed") || strings.HasPrefix(c.Text, "//go:linkname") {
				die("directive %s unsupported in instrumented file", c.Text)
			}
		}
	}
	return b.String()
}

// classify records, on the original (typed) tree, every decision the rewrite needs.
func (r *rewriter) classify(f *ast.File) {
	var labels = map[ast.Stmt]*ast.LabeledStmt{}
	ast.Inspect(f, func(n ast.Node) bool {
		switch x := n.(type) {
		case *ast.LabeledStmt:
			labels[x.Stmt] = x
		case *ast.AssignStmt:
			if len(x.Lhs) == 2 && len(x.Rhs) == 1 {
				if u, ok := ast.Unparen(x.Rhs[0]).(*ast.UnaryExpr); ok && u.Op == token.ARROW {
					r.recv2[u] = true
				}
			}
		case *ast.ValueSpec:
			if len(x.Names) == 2 && len(x.Values) == 1 {
				if u, ok := ast.Unparen(x.Values[0]).(*ast.UnaryExpr); ok && u.Op == token.ARROW {
					r.recv2[u] = true
				}
			}
		case *ast.SelectStmt:
			if l := labels[x]; l != nil {
				r.selLabel[x] = l
			}
			for _, c := range x.Body.List {
				cc := c.(*ast.CommClause)
				switch s := cc.Comm.(type) {
				case *ast.SendStmt:
					r.native[s] = true
					r.markNoHoist(s.Value)
				case *ast.ExprStmt:
					r.native[ast.Unparen(s.X)] = true
				case *ast.AssignStmt:
					r.native[ast.Unparen(s.Rhs[0])] = true
				}
			}
		case *ast.SendStmt:
			r.markNoHoist(x.Value)
		case *ast.RangeStmt:
			if t := r.info.TypeOf(x.X); t != nil {
				switch t.Underlying().(type) {
				case *types.Chan:
					r.rk[x] = rkChan
				case *types.Map:
					r.rk[x] = rkMap
				}
				if tp, ok := t.(*types.TypeParam); ok {
					_ = tp
					r.errs = append(r.errs, "range over a type parameter is unsupported")
				}
			}
		case *ast.CallExpr:
			if id, ok := ast.Unparen(x.Fun).(*ast.Ident); ok {
				if b, ok := r.info.Uses[id].(*types.Builtin); ok && b.Name() == "close" {
					r.isClose[x] = true
				}
			}
			if t := r.info.TypeOf(x.Fun); t != nil {
				if nt, ok := t.(*types.Named); ok && nt.Obj().Pkg() != nil && nt.Obj().Pkg().Path() == "context" && nt.Obj().Name() == "CancelFunc" && len(x.Args) == 0 {
					r.isCancel[x] = true
				}
			}
		case *ast.GoStmt:
			fl := make([]bool, len(x.Call.Args))
			for i, a := range x.Call.Args {
				tv := r.info.Types[a]
				fl[i] = tv.Value == nil && !tv.IsNil()
				if _, ok := a.(*ast.FuncLit); ok {
					fl[i] = false
				}
			}
			r.goArgs[x] = fl
		case *ast.SelectorExpr:
			if id, ok := x.X.(*ast.Ident); ok {
				if pn, ok := r.info.Uses[id].(*types.PkgName); ok {
					if to, ok := subst[[2]string{pn.Imported().Path(), x.Sel.Name}]; ok {
						r.substSel[x] = to
					} else {
						r.pkgUses[pn]++
					}
				}
			}
		}
		return true
	})
}

func (r *rewriter) markNoHoist(e ast.Expr) {
	tv := r.info.Types[e]
	simple := true
	ast.Inspect(e, func(n ast.Node) bool {
		switch x := n.(type) {
		case *ast.CallExpr:
			simple = false
		case *ast.UnaryExpr:
			if x.Op == token.ARROW {
				simple = false
			}
		}
		return true
	})
	if tv.Value != nil || tv.IsNil() || simple {
		r.noHoist[e] = true
	}
}

var (
	tObject       = reflect.TypeOf((*ast.Object)(nil))
	tScope        = reflect.TypeOf((*ast.Scope)(nil))
	tCommentGroup = reflect.TypeOf((*ast.CommentGroup)(nil))
)

// rewrite is a post-order, reflection-driven traversal that can replace any node sitting in an
// interface-typed slot (ast.Expr / ast.Stmt / ast.Decl / ast.Spec).
func (r *rewriter) rewrite(v reflect.Value) {
	switch v.Kind() {
	case reflect.Interface:
		if v.IsNil() {
			return
		}
		e := v.Elem()
		r.rewrite(e)
		if n, ok := v.Interface().(ast.Node); ok {
			if nn := r.transform(n); nn != n {
				v.Set(reflect.ValueOf(nn))
			}
		}
	case reflect.Ptr:
		if v.IsNil() || v.Type() == tObject || v.Type() == tScope {
			return
		}
		if v.Elem().Kind() == reflect.Struct {
			if cc, ok := v.Interface().(*ast.CommClause); ok {
				// the comm statement of a select clause is rewritten by the select transform itself;
				// only its operands and the body are visited
				r.rewriteComm(cc)
				return
			}
			s := v.Elem()
			for i := 0; i < s.NumField(); i++ {
				if s.Field(i).Type() == tCommentGroup {
					// comments are positioned by offsets that no longer exist: drop every Doc/Comment
					s.Field(i).Set(reflect.Zero(tCommentGroup))
					continue
				}
				r.rewrite(s.Field(i))
			}
			// pointer-typed slots that we may need to transform in place
			if gs, ok := v.Interface().(*ast.DeferStmt); ok {
				if nn, ok := r.transform(gs.Call).(*ast.CallExpr); ok {
					gs.Call = nn
				}
			}
			if gs, ok := v.Interface().(*ast.GoStmt); ok {
				if nn, ok := r.transform(gs.Call).(*ast.CallExpr); ok {
					gs.Call = nn
				}
			}
		}
	case reflect.Slice:
		for i := 0; i < v.Len(); i++ {
			r.rewrite(v.Index(i))
		}
	}
}

func (r *rewriter) rewriteComm(cc *ast.CommClause) {
	switch s := cc.Comm.(type) {
	case *ast.SendStmt:
		r.rewrite(reflect.ValueOf(&s.Chan).Elem())
		r.rewrite(reflect.ValueOf(&s.Value).Elem())
	case *ast.ExprStmt:
		u := ast.Unparen(s.X).(*ast.UnaryExpr)
		r.rewrite(reflect.ValueOf(&u.X).Elem())
	case *ast.AssignStmt:
		u := ast.Unparen(s.Rhs[0]).(*ast.UnaryExpr)
		r.rewrite(reflect.ValueOf(&u.X).Elem())
		for i := range s.Lhs {
			r.rewrite(reflect.ValueOf(&s.Lhs[i]).Elem())
		}
	}
	r.rewrite(reflect.ValueOf(&cc.Body).Elem())
}

func (r *rewriter) transform(n ast.Node) ast.Node {
	switch x := n.(type) {
	case *ast.SelectorExpr:
		if to, ok := r.substSel[x]; ok {
			r.stats["subst"]++
			return r.rt(to)
		}
	case *ast.UnaryExpr:
		if x.Op == token.ARROW && !r.native[x] {
			r.stats["recv"]++
			if r.recv2[x] {
				return call(r.rt("Recv2"), x.X)
			}
			return call(r.rt("Recv"), x.X)
		}
	case *ast.CallExpr:
		if r.isClose[x] {
			r.stats["close"]++
			return call(r.rt("Close"), x.Args...)
		}
		if r.isCancel[x] {
			r.stats["cancel"]++
			delete(r.isCancel, x)
			return call(r.rt("CallCancel"), x.Fun)
		}
	case *ast.GoStmt:
		return r.goStmt(x)
	case *ast.SendStmt:
		if !r.native[x] {
			return r.sendStmt(x)
		}
	case *ast.SelectStmt:
		return r.selectStmt(x)
	case *ast.LabeledStmt:
		// a label that sat on a select has been moved onto the generated switch
		if b, ok := x.Stmt.(*ast.BlockStmt); ok && len(b.List) > 0 {
			if ls, ok := b.List[len(b.List)-1].(*ast.LabeledStmt); ok && ls.Label.Name == x.Label.Name {
				return b
			}
		}
	case *ast.RangeStmt:
		switch r.rk[x] {
		case rkChan:
			return r.rangeChan(x)
		case rkMap:
			return r.rangeMap(x)
		}
	}
	return n
}

func (r *rewriter) goStmt(g *ast.GoStmt) ast.Stmt {
	r.stats["go"]++
	c := g.Call
	if fl, ok := c.Fun.(*ast.FuncLit); ok && len(c.Args) == 0 {
		return &ast.ExprStmt{X: call(r.rt("Go"), fl)}
	}
	var pre []ast.Stmt
	hoist := r.goArgs[g]
	args := make([]ast.Expr, len(c.Args))
	for i, a := range c.Args {
		if i < len(hoist) && hoist[i] {
			t := r.tmp("g")
			pre = append(pre, define([]ast.Expr{t}, a))
			args[i] = t
		} else {
			args[i] = a
		}
	}
	inner := &ast.CallExpr{Fun: c.Fun, Args: args, Ellipsis: c.Ellipsis}
	lit := &ast.FuncLit{Type: &ast.FuncType{Params: &ast.FieldList{}}, Body: &ast.BlockStmt{List: []ast.Stmt{&ast.ExprStmt{X: inner}}}}
	st := &ast.ExprStmt{X: call(r.rt("Go"), lit)}
	if len(pre) == 0 {
		return st
	}
	return &ast.BlockStmt{List: append(pre, st)}
}

func (r *rewriter) sendStmt(s *ast.SendStmt) ast.Stmt {
	r.stats["send"]++
	c, t := r.tmp("c"), r.tmp("t")
	list := []ast.Stmt{define([]ast.Expr{c}, s.Chan)}
	val := s.Value
	if !r.noHoist[s.Value] {
		v := r.tmp("v")
		list = append(list, define([]ast.Expr{v}, s.Value))
		val = v
	}
	list = append(list,
		define([]ast.Expr{t}, call(r.rt("PreSend"), c)),
		&ast.SendStmt{Chan: c, Value: val},
		&ast.ExprStmt{X: call(r.rt("Post"), t)})
	return &ast.BlockStmt{List: list}
}

func (r *rewriter) selectStmt(s *ast.SelectStmt) ast.Stmt {
	r.stats["select"]++
	if len(s.Body.List) == 0 {
		return &ast.ExprStmt{X: call(r.rt("BlockForever"))}
	}
	var pre []ast.Stmt
	var cases []ast.Expr
	hasDefault := false
	idx, tok := r.tmp("i"), r.tmp("t")
	sw := &ast.SwitchStmt{Tag: idx, Body: &ast.BlockStmt{}}
	k := 0
	for _, c := range s.Body.List {
		cc := c.(*ast.CommClause)
		if cc.Comm == nil {
			hasDefault = true
			sw.Body.List = append(sw.Body.List, &ast.CaseClause{List: nil, Body: cc.Body})
			continue
		}
		ch := r.tmp("c")
		var comm ast.Stmt
		switch st := cc.Comm.(type) {
		case *ast.SendStmt:
			pre = append(pre, define([]ast.Expr{ch}, st.Chan))
			val := st.Value
			if !r.noHoist[st.Value] {
				v := r.tmp("v")
				pre = append(pre, define([]ast.Expr{v}, st.Value))
				val = v
			}
			cases = append(cases, call(r.rt("Sd"), ch))
			comm = &ast.SendStmt{Chan: ch, Value: val}
		case *ast.ExprStmt:
			u := ast.Unparen(st.X).(*ast.UnaryExpr)
			pre = append(pre, define([]ast.Expr{ch}, u.X))
			cases = append(cases, call(r.rt("R"), ch))
			comm = &ast.ExprStmt{X: &ast.UnaryExpr{Op: token.ARROW, X: ch}}
		case *ast.AssignStmt:
			u := ast.Unparen(st.Rhs[0]).(*ast.UnaryExpr)
			pre = append(pre, define([]ast.Expr{ch}, u.X))
			cases = append(cases, call(r.rt("R"), ch))
			comm = &ast.AssignStmt{Lhs: st.Lhs, Tok: st.Tok, Rhs: []ast.Expr{&ast.UnaryExpr{Op: token.ARROW, X: ch}}}
		default:
			r.errs = append(r.errs, "unhandled comm clause form")
			continue
		}
		body := append([]ast.Stmt{comm, &ast.ExprStmt{X: call(r.rt("Post"), tok)}}, cc.Body...)
		sw.Body.List = append(sw.Body.List, &ast.CaseClause{List: []ast.Expr{&ast.BasicLit{Kind: token.INT, Value: fmt.Sprint(k)}}, Body: body})
		k++
	}
	hd := "false"
	if hasDefault {
		hd = "true"
	}
	selCall := call(r.rt("Select"), append([]ast.Expr{ast.NewIdent(hd)}, cases...)...)
	pre = append(pre, define([]ast.Expr{idx, tok}, selCall), &ast.AssignStmt{Lhs: []ast.Expr{ast.NewIdent("_")}, Tok: token.ASSIGN, Rhs: []ast.Expr{tok}})
	var swStmt ast.Stmt = sw
	if l := r.selLabel[s]; l != nil {
		swStmt = &ast.LabeledStmt{Label: ast.NewIdent(l.Label.Name), Stmt: sw}
	}
	return &ast.BlockStmt{List: append(pre, swStmt)}
}

func (r *rewriter) rangeChan(s *ast.RangeStmt) ast.Stmt {
	r.stats["range-chan"]++
	c, ok := r.tmp("c"), r.tmp("ok")
	var v ast.Expr = ast.NewIdent("_")
	var post []ast.Stmt
	if !isBlank(s.Key) {
		if s.Tok == token.DEFINE {
			v = s.Key
		} else {
			t := r.tmp("v")
			v = t
			post = append(post, &ast.AssignStmt{Lhs: []ast.Expr{s.Key}, Tok: token.ASSIGN, Rhs: []ast.Expr{t}})
		}
	}
	body := []ast.Stmt{
		define([]ast.Expr{v, ok}, call(r.rt("Recv2"), c)),
		&ast.IfStmt{Cond: &ast.UnaryExpr{Op: token.NOT, X: ok}, Body: &ast.BlockStmt{List: []ast.Stmt{&ast.BranchStmt{Tok: token.BREAK}}}},
	}
	body = append(body, post...)
	body = append(body, s.Body)
	return &ast.ForStmt{Init: define([]ast.Expr{c}, s.X), Body: &ast.BlockStmt{List: body}}
}

func (r *rewriter) rangeMap(s *ast.RangeStmt) ast.Stmt {
	r.stats["range-map"]++
	e := r.tmp("e")
	var lhs, rhs []ast.Expr
	if !isBlank(s.Key) {
		lhs = append(lhs, s.Key)
		rhs = append(rhs, &ast.SelectorExpr{X: e, Sel: ast.NewIdent("K")})
	}
	if !isBlank(s.Value) {
		lhs = append(lhs, s.Value)
		rhs = append(rhs, &ast.SelectorExpr{X: e, Sel: ast.NewIdent("V")})
	}
	ns := &ast.RangeStmt{Key: ast.NewIdent("_"), Value: e, Tok: token.DEFINE, X: call(r.rt("MapRange"), s.X)}
	if len(lhs) == 0 {
		ns.Key, ns.Value, ns.Tok = nil, nil, token.ILLEGAL
		ns.Body = s.Body
		return ns
	}
	ns.Body = &ast.BlockStmt{List: []ast.Stmt{&ast.AssignStmt{Lhs: lhs, Tok: s.Tok, Rhs: rhs}, s.Body}}
	return ns
}

func (r *rewriter) fixImports(f *ast.File) {
	// imports whose every use was substituted become blank imports
	for _, is := range f.Imports {
		var pn *types.PkgName
		if is.Name != nil {
			pn, _ = r.info.Defs[is.Name].(*types.PkgName)
		} else {
			pn, _ = r.info.Implicits[is].(*types.PkgName)
		}
		_ = pn
	}
	used := map[string]bool{}
	ast.Inspect(f, func(n ast.Node) bool {
		if se, ok := n.(*ast.SelectorExpr); ok {
			if id, ok := se.X.(*ast.Ident); ok {
				if _, ok := r.info.Uses[id].(*types.PkgName); ok {
					used[id.Name] = true
				}
			}
		}
		return true
	})
	for _, d := range f.Decls {
		gd, ok := d.(*ast.GenDecl)
		if !ok || gd.Tok != token.IMPORT {
			continue
		}
		for _, sp := range gd.Specs {
			is := sp.(*ast.ImportSpec)
			name := ""
			if is.Name != nil {
				name = is.Name.Name
			} else {
				path := strings.Trim(is.Path.Value, `"`)
				name = importName(r, is, path)
			}
			if name == "_" || name == "." {
				continue
			}
			if !used[name] {
				is.Name = ast.NewIdent("_")
			}
		}
	}
	if r.usedRT {
		spec := &ast.ImportSpec{Name: ast.NewIdent(rtName), Path: &ast.BasicLit{Kind: token.STRING, Value: `"` + rtPath + `"`}}
		f.Decls = append([]ast.Decl{&ast.GenDecl{Tok: token.IMPORT, Specs: []ast.Spec{spec}}}, f.Decls...)
	}
}

func importName(r *rewriter, is *ast.ImportSpec, path string) string {
	if pn, ok := r.info.Implicits[is].(*types.PkgName); ok {
		return pn.Name()
	}
	return path[strings.LastIndex(path, "/")+1:]
}

// verify fails loudly if a construct that must be handled survived.
func (r *rewriter) verify(f *ast.File, path string) {
	ast.Inspect(f, func(n ast.Node) bool {
		switch x := n.(type) {
		case *ast.GoStmt:
			die("%s: unhandled go statement", path)
		case *ast.SelectStmt:
			die("%s: unhandled select", path)
		case *ast.RangeStmt:
			if k, ok := r.rk[x]; ok && k != rkNone {
				die("%s: unhandled range over chan/map", path)
			}
		}
		return true
	})
}

func parseFile(fset *token.FileSet, path string) (*ast.File, error) {
	return parser.ParseFile(fset, path, nil, parser.ParseComments|parser.SkipObjectResolution)
}

func min(a, b int) int {
	if a < b {
		return a
	}
	return b
}
