#!/usr/bin/env python3
"""Regenerates MANIFEST.json from the table below (kept in one place so it is always valid)."""
import json, subprocess
W = "exhaustive exploration of the REAL goroutines under a cooperative scheduler (source instrumented at check time): all schedules / map-iteration orders / fault placements / cancellation points within stated deviation bounds, happens-before state caching"
CHECKS = {
 "C01": dict(cat="model_checking", engine="weave", tech=W,
   text="The real eni.Manager and eni.Local code runs under a scheduler that owns every lock, condition variable, channel operation, select, goroutine start, map iteration and timer; scenarios force 2-3 concurrent CNI requests onto one idle address and one free interface slot (incl. asymmetric dual-stack sets, remote address removal, dispose racing allocation, cancellation at any point, restart with stored bindings) and every interleaving with <=2 (quick) / 3 (thorough) departures from the canonical scheduler is executed; an event ledger checks every acknowledgement.",
   note="Bounded: delay bound 2/3, <=3 client threads, <=3 addresses per interface, simulated factory (contract of pkg/factory/aliyun). Scheduling granularity = synchronisation operations; internal deadline => exhaustive:false, never a failure.", ref="§2, §5 C01"),
 "C04": dict(cat="model_checking", engine="weave", tech=W+"; replies checked by brute-force linearizability against a sequential reference",
   text="Real networkService.AllocIP/ReleaseIP/GetIPInfo over the real pool: 2-3 RPC threads on one pod with old/new sandbox ids plus a second pod, cancellation delivered at any scheduling point; every interleaving within the bound; replies must have a sequential explanation, 'processing' must overlap and have no effect, pool ownership must equal stored records at quiescence.",
   note="Fake k8s.Kubernetes (pod table) instead of pkg/k8s; MemoryStorage; delay bound 2/3.", ref="§5 C04"),
 "C05": dict(cat="fault_enumeration", engine="crash", tech="crash-point enumeration: every effect boundary of every short RPC history recovered with the real start-up path; every prefix x dropped/torn subset of bolt's page-write log reopened with real bolt",
   text="Level 1: all histories <=3/4 over ADD/DEL/vanish+gc on a real bolt-backed store; crash after each cloud effect, database commit and reply; recovery through NewDiskStorage->load, filterENINotFound, NewLocal.Run(stored bindings); probes for durability of acknowledged operations and absence of double allocation. Level 2: bolt write/sync log (hooks injected through -overlay), every prefix x every subset of unsynced writes dropped or torn, reopened.",
   note="Crash points inside a request between two lock operations (no externally visible effect in between) are not distinguished; page size 4096; <=6 unsynced writes per prefix.", ref="§4 D, §5 C05"),
 "C06": dict(cat="model_checking", engine="weave", tech=W+"; monitor on every factory call",
   text="Balancer-heavy scenarios (syncPool interleaved with ADD/DEL, repeated syncPool, shrink-to-zero with trunk/RDMA interfaces) over per-ENI cap x batch x min/max idle x IP stack; every factory call's arguments are judged against the ledger of live allocations at call time.",
   note="As C01; quick tier thins the configuration product (every parameter value still occurs).", ref="§5 C06"),
 "C07": dict(cat="model_checking", engine="weave", tech=W+"; fault placement enumeration at the factory seam",
   text="Every placement of <=1/2 faults (before effect, after effect, partial result, quota / vSwitch-exhausted codes, interface returned with error) over the cloud calls of the scenarios, combined with scheduling deviations and a cancellation at any point; at quiescence Status() is compared with the simulated cloud; after healthy balancer rounds the idle count is compared with the watermark band.",
   note="'Timeout after effect with nothing returned' is outside the factory contract and not injected.", ref="§5 C07"),
 "C09": dict(cat="model_checking", engine="weave", tech="bounded-exhaustive enumeration of (store, pod list) pairs through the real gcPods inside a private network namespace + interleaving exploration with requests",
   text="Every subset (quick: size<=4) of 7 record archetypes x store iteration orders; three real gcPods passes in a private netns (kernel calls are real; lo carries the attached interface's MAC); oracle on records and pool ownership after 2 and 3 passes; plus gcPods || AllocIP || ReleaseIP interleavings.",
   note="Fake k8s.Kubernetes; ipvlan/tc leak collection not exercised (TERWAY_GC_RULES unset).", ref="§5 C09"),
 "C14": dict(cat="model_checking", engine="enum", tech="bounded-exhaustive enumeration of CIDRs x packets through the real key builders against an independent kernel-u32 evaluator (thorough: all 2^32 IPv4 packets per CIDR)",
   text="Every IPv4/IPv6 prefix length x base patterns; classifier keys produced by the real code are evaluated with the kernel's u32 semantics on every packet within Hamming distance 2 of the base (thorough: the entire IPv4 address space) and compared with netip.Prefix.Contains; gateways for every prefix length against big-integer arithmetic; veth names over a small-scope alphabet; table ids over 0..2^20.",
   note="Trusts the u32 evaluator (10 lines) and netip as reference; IPv6: <=2-bit perturbations + 10-bit window at the prefix boundary, not 2^128.", ref="§5 C14"),
 "C15": dict(cat="model_checking", engine="enum", tech="bounded-exhaustive enumeration of strings / JSON shapes through the real parsers under recover",
   text="Every string of length <=4/5 over a 20-symbol alphabet through parseBandwidth and (shorter) through convertPod; unit-ladder laws on every well-formed number; annotation values through the RPC conversion path.",
   note="Small-scope alphabet, not all byte strings; further entry points are added as their harnesses land.", ref="§5 C15"),
 "C16": dict(cat="model_checking", engine="weave", tech=W,
   text="All issue/fail/succeed histories <=4/5 for every builder and parameter pair with every tag-map iteration order; 2-3 threads issue;rollback;issue on equal and different parameters with the generator's mutex and LRU operations as scheduling points; reference ledger after every operation.",
   note="uuid values are opaque (canonicalised by first occurrence).", ref="§5 C16"),
 "C17": dict(cat="model_checking", engine="weave", tech=W,
   text="Every candidate list <=3 of 4 vSwitches x zones x free counts x policy (every shuffle outcome) x IgnoreZone against a reference selection; block/expiry histories on the virtual clock; GetOne||GetOne;Block||Block sharing one slice with the single-flight fill in flight.",
   note="Caller slice integrity is checked element-wise; 'most' accepts any candidate with the maximal free count.", ref="§5 C17"),
}
B = "explicit-state breadth-first search: a state is an event history; every transition replays the history on a fresh world (fake API server + simulated cloud) and invokes the REAL reconcile / RPC handlers; states deduplicated by a canonical form of CRs + cloud; invariants on every transition and a closure run from every state"
CHECKS.update({
 "C02": dict(cat="model_checking", engine="bfs", tech=B,
   text="BFS to depth 4/5 from the empty cluster and a populated root over pod create / IP report / delete, reconcile (incl. reversed map order and failing status update), controller restart, clock and cloud drift; every transition runs the real ReconcileNode.Reconcile; invariants on the Node CR (one pod per address, one address per family per pod, no address under two interfaces, take-over honours the reported address).",
   note="2-3 pods, <=2 adapters x <=3 addresses; fake API server (controller-runtime fake client), simulated OpenAPI; depth-bounded.", ref="§3, §5 C02"),
 "C03": dict(cat="model_checking", engine="bfs", tech=B+"; both processes (node agent and control plane) run their real code on one API server",
   text="BFS to depth 4/5 over kubelet events, the real daemon in CRD mode (ADD, DEL, report flush with/without write failure, syncDeletedPods, GC, restart) and the real ReconcileNode; transition invariants tie every unbind / Deleting mark / unassign to (no pod of that name) AND (teardown reported for that UID), and every report to a processed DEL or an absent pod; closure: deleted pods' addresses are reclaimed.",
   note="pkg/utils.RuntimeFinalStatus tie-breaking for reports inside the same second is not explored (time source not instrumented there); one node.", ref="§5 C03"),
 "C08": dict(cat="model_checking", engine="bfs", tech=B+"; one-shot fault menu on every cloud call",
   text="BFS to depth 3/4 over pod events, reconciles, clock and a one-shot fault on the next Create/Attach/WaitFor/Assign/UnAssign/Detach/Delete/Describe (before effect, quota / exhaustion / throttling codes, timeout after effect); cloud call log checked against the node's limits on every transition; from every explored state a healthy closure run must converge (pods bound, idle within [min,max], no more cloud mutations, record == cloud after the next full sync).",
   note="A Create whose reply is lost and that is never retried with the same parameters is outside the bound (idempotent replay by client token is modelled); EFLO node types not covered.", ref="§5 C08"),
 "C10": dict(cat="model_checking", engine="bfs", tech=B,
   text="BFS to depth 4/5 over pod lifecycle on two nodes, the two real controllers (pod, PodENI) observing in any order, GC loops, clock steps and one-shot cloud/API faults, x trunk x pod kinds; every (phase, phase') pair must be in the documented relation, records vanish only from Deleting, no Detach/Delete for a running pod's interface; closure: no interface without record, deleted elastic pods fully released.",
   note="One known finding (fixed-IP pod deleted before bind completes goes ''/Binding -> Detaching), listed in known_findings.json. <=2 pods, 2 nodes.", ref="§5 C10"),
 "C11": dict(cat="model_checking", engine="bfs", tech=B+"; bounded-exhaustive populations for the leak collector",
   text="BFS from roots with bound fixed-IP pods with clock steps around 1 min / TTL / 10 min over 6 pod kinds (TTL, Never, mixed two-interface records in both orders): a fixed record is collected only when now-podLastSeen >= TTL and never with a Never allocation; a recreated pod binds the SAME interface and address. Leak collector: every population of <=3/4 interfaces over tag x age x reference x kind archetypes, delete set == reference set.",
   note="Age boundaries are sampled at {-1 s, 0, +1 s, 1 h} around the threshold, not every instant.", ref="§5 C11"),
 "C12": dict(cat="model_checking", engine="enum", tech="bounded-exhaustive enumeration of allocation records x CNI configurations through the real conversion chain (ToRPC, defaultForNetConf, parseSetupConf/TearDown/Check, getDatePath) against reference tables",
   text="Every PodENI with 1-3 allocations x family x subnet size x address position x trunk status through RemoteIPResource.ToRPC (gateway = reserved address of the subnet, all-or-nothing); every interface-name/default-route list through defaultForNetConf (exactly one default route, primary present); every daemon reply x IP type x CNI configuration through the plugin parsers (datapath table, addresses/gateway/routes/limits recovered, setup and check agree).",
   note="Records that the cloud cannot produce (address outside subnet / equal to gateway) are only run for crashes.", ref="§5 C12"),
 "C13": dict(cat="model_checking", engine="enum", tech="bounded-exhaustive enumeration of SetupConfigs through all datapath generators against a reference FIB + exhaustive event histories of the REAL Setup/Teardown against the running kernel in private network namespaces",
   text="Configuration level: family x default route x multi-network x extra routes x vlan strip x peer for every generator of the four datapaths (nothing for a disabled family, one default route per enabled family, reference FIB delivers to the pod link and out of the owning ENI via its gateway). Kernel level: all histories <=5/7 of setup/teardown/sandbox-gone over three pods (one re-using an address on another ENI) for v4/v6/dual through PolicyRoute, and <=4/6 through ExclusiveENI; the kernel's own route lookups, rule/route/link dumps after every event.",
   note="This kernel has no ipvlan / vlan / dummy link types: the ipvlan and vlan datapaths are decided at configuration level only; ENIs are veth ends.", ref="§5 C13"),
 "C18": dict(cat="model_checking", engine="enum", tech="bounded-exhaustive enumeration of pods x PodNetworking sets x cluster configuration through the real admission handler on a fake API server; the JSON patch is applied and parsed back",
   text="Pods over host network / ignore label / containers / owner kind / 14 pod-networks shapes / 6 network-request shapes / annotations x PodNetworking sets x previous zone x cluster configuration; decision and patched pod compared with the reference predicate of the statement (untouched classes unchanged, conflicts denied, every admitted patched pod complete and consistent).",
   note="Shapes are a curated finite alphabet, crossed exhaustively.", ref="§5 C18"),
 "C19": dict(cat="model_checking", engine="enum", tech="bounded-exhaustive enumeration of instance-type limits x daemon configuration through the real limit parsing, pool configuration and Node CR publication",
   text="Every instance description through getInstanceType/Limits; every limit vector x daemon configuration through getPoolConfig/checkInstance; every NodeCap x eni-config through the daemon-side nodeReconcile on a fake API server; oracles are the inequalities of the statement (non-negative, within quota, min<=max<=capacity, features off without support).",
   note="Small integer ranges (adapters <=5, addresses <=4); controller-side annotation path (k8sAnno/patchNodeRes) not covered.", ref="§5 C19"),
 "C20": dict(cat="model_checking", engine="enum", tech="bounded-exhaustive enumeration of JSON documents / plugin chains through the real merge functions against an RFC 7396 reference and a reference chain predicate",
   text="Every base/overlay document pair over real Config keys x value shapes through MergeConfigAndUnmarshal (== RFC 7396 reference, identity and idempotence laws); every ordering of every plugin subset x kernel capabilities x datapath settings x recorded node capabilities through mergeConfigList in a private netns (valid JSON, order kept, normalised values, chainer iff eBPF datapath).",
   note="Documents have <=2/3 keys per side; nodeCapabilitiesFile is redirected to a temp dir by a one-token const->var overlay patch.", ref="§5 C20"),
})
NA = {}
def main():
    checks=[]
    for pid,c in sorted(CHECKS.items()):
        checks.append(dict(property_id=pid, quick_cmd=f"./bin/vcheck {pid} --tier quick", thorough_cmd=f"./bin/vcheck {pid} --tier thorough",
            evidence_file=f"/verif/evidence/{pid}.json", replay_cmd_template=f"./bin/vcheck {pid} --replay {{path}}", engine=c.get("engine","enum"),
            level_claimed=dict(category=c["cat"], text=c["text"], design_ref=c["ref"]), level_note=c["note"], technique=c["tech"]))
    props=[json.loads(l)["id"] for l in open("/verif/properties.jsonl")]
    na=[dict(property_id=p, reason=NA.get(p,"check not built yet (in progress); see DESIGN.md §5 for the planned exploration")) for p in props if p not in CHECKS]
    m=dict(version=1,
      setup_cmd="cd /verif && ./setup.sh",
      hooks=dict(guard="verif", enable="go test -tags default_build,verif -overlay <generated> (all harness code, shims and instrumented copies are injected through -overlay; /repo is not modified)",
                 baseline_off_cmd=json.load(open("/root/.vp/BASELINE.json"))["cmd"], source_commits=[], add_only=True),
      engines=[dict(name="enum", path="/verif/harness/plain", serves_properties=[p for p,c in CHECKS.items() if c.get("engine","enum")=="enum"], kind_free_text="bounded-exhaustive enumeration of inputs/configurations/histories through the real functions against reference models, in-package harnesses injected by -overlay"),
               dict(name="weave", path="/verif/cmd/instr + /verif/vpkg/rt + /verif/harness/weave", serves_properties=[p for p,c in CHECKS.items() if c.get("engine")=="weave"], kind_free_text="source-to-source instrumenter + deterministic cooperative runtime + stateless DFS explorer (delay/preemption, map-order, fault, timer deviations; happens-before fingerprint pruning) running the real terway goroutines"),
               dict(name="bfs", path="/verif/vpkg/bfs + /verif/vpkg/simcloud + /verif/harness/weave/{daemon/c03,pkg/controller/**}", serves_properties=[p for p,c in CHECKS.items() if c.get("engine")=="bfs"], kind_free_text="explicit-state breadth-first search over event histories replayed through the real controllers / daemon handlers on a fake API server and a simulated cloud; canonical-state deduplication; closure runs from every state"),
               dict(name="crash", path="/verif/harness/weave/daemon/c05_test.go + /verif/harness/plain/pkg/storage/c05_test.go", serves_properties=["C05"], kind_free_text="crash-point and torn-write enumeration with recovery through the real start-up path")],
      checks=checks, not_applicable=na,
      notes="vcheck exit codes: 0 held, 1 VIOLATION, 2 harness error. Known findings: /verif/known_findings.json.")
    json.dump(m, open("/verif/MANIFEST.json","w"), indent=1)
main()
