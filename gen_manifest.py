#!/usr/bin/env python3
"""Regenerates MANIFEST.json from the table below (kept in one place so it is always valid)."""
import json, subprocess
CHECKS = {
 "C14": dict(cat="model_checking", tech="bounded-exhaustive enumeration of CIDRs x packets through the real key builders against an independent kernel-u32 evaluator (thorough: all 2^32 IPv4 packets per CIDR)",
   text="Every IPv4/IPv6 prefix length x base patterns; classifier keys produced by the real code are evaluated with the kernel's u32 semantics on every packet within Hamming distance 2 of the base (thorough: the entire IPv4 address space) and compared with netip.Prefix.Contains; gateways for every prefix length against big-integer arithmetic; veth names over a small-scope alphabet; table ids over 0..2^20. Exhaustive within those domains; IPv6 packet space is sampled structurally (stated).",
   note="Trusts the u32 evaluator (10 lines) and netip as reference; IPv6: <=2-bit perturbations + 10-bit window at the prefix boundary, not 2^128.", ref="§5 C14"),
}
NA = {}
def main():
    checks=[]
    for pid,c in sorted(CHECKS.items()):
        checks.append(dict(property_id=pid, quick_cmd=f"./bin/vcheck {pid} --tier quick", thorough_cmd=f"./bin/vcheck {pid} --tier thorough",
            evidence_file=f"/verif/evidence/{pid}.json", replay_cmd_template=f"./bin/vcheck {pid} --replay {{path}}", engine=c.get("engine","enum"),
            level_claimed=dict(category=c["cat"], text=c["text"], design_ref=c["ref"]), level_note=c["note"], technique=c["tech"]))
    props=[json.loads(l)["id"] for l in open("/verif/properties.jsonl")]
    na=[dict(property_id=p, reason=NA.get(p,"check not built yet (in progress); see DESIGN.md §5 for the planned exploration")) for p in props if p not in CHECKS]
    m=dict(version=1,
      setup_cmd="cd /verif && ./setup.sh",
      hooks=dict(guard="verif", enable="go test -tags default_build,verif -overlay <generated> (all harness code, shims and instrumented copies are injected through -overlay; /repo is not modified)",
                 baseline_off_cmd=json.load(open("/root/.vp/BASELINE.json"))["cmd"], source_commits=[], add_only=True),
      engines=[dict(name="enum", path="/verif/harness/plain", serves_properties=[p for p,c in CHECKS.items() if c.get("engine","enum")=="enum"], kind_free_text="bounded-exhaustive enumeration of inputs/configurations/histories through the real functions against reference models, in-package harnesses injected by -overlay")],
      checks=checks, not_applicable=na,
      notes="vcheck exit codes: 0 held, 1 VIOLATION, 2 harness error. Known findings: /verif/known_findings.json.")
    json.dump(m, open("/verif/MANIFEST.json","w"), indent=1)
main()
