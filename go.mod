module verif

go 1.24.0
